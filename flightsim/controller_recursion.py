"""C15: controller saturations and error laws as invariants of the recursion.  The real
node of scripts/rdd2_sim.py holds the controller memory (i0, e0, de0, z_i, psi_sp, pw_sp,
q_sp) and is stepped by a simulated timer with jitter / missed / long ticks while a
simulated pilot switches modes and moves the sticks and a glitch process acts between
plant and controller.  Every call into the CasADi controller functions is monitored at the
call boundary; gains and limits are randomised per run.

Real code : scripts/rdd2_sim.py Simulator (all of update_controller / joy_callback /
            timer_callback and the memory it feeds back), models.rdd2, models.rdd2_loglinear,
            models.quadrotor (plant, CVODES)
Stubs     : rclpy / *_msgs / tf2_ros fakes, the pilot, the glitch injector
"""
import contextlib
import math

import numpy as np

from dsim import bootstrap
from dsim import refmath as rm
from dsim.kernel import BudgetExceeded, Recorder, stream
from dsim.util import exception_origin
from flightsim import common
from flightsim.common import HOVER_OMEGA, make_node, vec

NAME = "controller_recursion"
PROPS = ("C15",)

REACH_TOL = 1e-8
ZERO_TOL = 1e-6
DT_MIN = 1e-3


def setup():
    common.setup()


# ---------------------------------------------------------------------------
def gen(seed, tier="quick"):
    ic = stream(seed, "topology")
    work = stream(seed, "workload")
    flt = stream(seed, "faults")
    knobs = stream(seed, "knobs")
    n = knobs.choice([400, 600, 800]) if tier == "quick" else knobs.choice([600, 1500, 3000])

    def pos3(lo, hi):
        return [10 ** knobs.uniform(math.log10(lo), math.log10(hi)) for _ in range(3)]

    randomise = knobs.random() < 0.75
    kn = {
        "kp_rate": pos3(0.02, 1.0) if randomise else [0.3, 0.3, 0.05],
        "ki_rate": pos3(0.01, 2.0) if randomise else [0.0, 0.0, 0.0],
        "kd_rate": pos3(0.001, 0.2) if randomise else [0.1, 0.1, 0.0],
        "f_cut": 10 ** knobs.uniform(-1, 3) if randomise else 10.0,
        "i_max": pos3(0.001, 2.0) if randomise else [0.0, 0.0, 0.0],
        "kp_att": pos3(0.5, 10.0) if randomise else [5.0, 5.0, 2.0],
        "z_integral_max": knobs.choice([0.0, 0.05, 0.5, 5.0]) if randomise else 0.0,
        "psi_sp0": knobs.choice([0.0, 3.1, -3.1, 3.14, -3.14, knobs.uniform(-math.pi, math.pi)]),
        "at_w": [knobs.uniform(-6, 6) for _ in range(3)] if (randomise and knobs.random() < 0.3) else [0.0, 0.0, 0.0],
        "thrust_trim": knobs.choice([15.0, 25.0, 30.0, 45.0]) if (randomise and knobs.random() < 0.5) else None,
        # controller-side airframe constants, set before the functions are derived (a lighter / heavier airframe)
        "m_ctrl": knobs.choice([1.0, 1.5, 3.0]) if (randomise and knobs.random() < 0.3) else None,
    }
    # round 7: the stick-to-thrust authority as a knob (the script passes 0.5 m g); values above the trim
    # make the low end of the throttle range command a negative collective thrust, which the linear map states
    k2 = stream(seed, "knobs2")
    kn_delta = k2.choice([2.0, 8.0, 20.0, 35.0, 60.0]) if (randomise and k2.random() < 0.5) else None
    kn["thrust_delta"] = kn_delta
    tilt = ic.uniform(0, math.radians(40))
    az = ic.uniform(-math.pi, math.pi)
    yaw = ic.uniform(-math.pi, math.pi)
    q = rm.quat_mul(rm.quat_exp([0, 0, yaw]), rm.quat_exp(tilt * np.array([math.cos(az), math.sin(az), 0])))
    if ic.random() < 0.5:
        q = -q
    x0 = [ic.uniform(-3, 3), ic.uniform(-3, 3), ic.uniform(10, 40)] + [ic.uniform(-1, 1) for _ in range(3)] + q.tolist() + \
         [ic.uniform(-1, 1) for _ in range(3)] + [HOVER_OMEGA] * 4

    enabled = {k: flt.random() < 0.5 for k in ("tick_missed", "tick_long", "tick_duplicate", "att_sign_flip", "att_jump", "pos_jump", "stale_state", "position_reset",
                                                "knob_change", "feedforward_accel", "att_scale")}
    ops = []
    k = 0
    while k < n:
        k += work.randint(3, 60)
        if k >= n:
            break
        r = work.random()
        if r < 0.08:
            # a long full-rudder hold: the yaw set-point has to travel through +-pi
            v = [0.0] * 4
            v[3] = work.choice([-1.0, 1.0])
            ops.append({"k": k, "op": "sticks", "aetr": v, "tag": "stick_hold_extreme"})
            ops.append({"k": k, "op": "mode", "mode": "velocity"})
            k += work.randint(150, 400)
            continue
        if r < 0.35:
            v = [work.choice([-1.0, 1.0, 0.0, work.uniform(-1, 1)]) for _ in range(4)]
            ops.append({"k": k, "op": "sticks", "aetr": v})
        elif r < 0.45:
            ax = work.randrange(4)
            v = [0.0] * 4
            v[ax] = work.choice([-1.0, 1.0])
            ops.append({"k": k, "op": "sticks", "aetr": v, "tag": "stick_hold_extreme"})
        elif r < 0.55:
            ops.append({"k": k, "op": "mode", "mode": work.choice(["velocity", "auto_level", "acro", "velocity"])})
        elif r < 0.65:
            ops.append({"k": k, "op": "control_mode", "mode": work.choice(["mellinger", "loglinear"])})
        else:
            kinds = [kk for kk, on in sorted(enabled.items()) if on]
            if not kinds:
                continue
            kind = flt.choice(kinds)
            op = {"k": k, "op": kind}
            if kind == "att_jump":
                v = np.array([flt.gauss(0, 1) for _ in range(3)])
                op["rotvec"] = (flt.choice([0.05, 0.5, 2.0, 3.1]) * v / np.linalg.norm(v)).tolist()
            elif kind == "pos_jump":
                op["d"] = [flt.uniform(-5, 5) for _ in range(3)]
            elif kind == "tick_long":
                op["dt"] = flt.choice([0.03, 0.05])
            elif kind == "stale_state":
                op["n"] = flt.randint(1, 10)
            elif kind == "knob_change":
                ch = {}
                for nm in flt.sample(["i_max", "ki_rate", "kp_rate", "f_cut", "kp_att"], flt.randint(1, 2)):
                    if nm == "f_cut":
                        ch[nm] = 10 ** flt.uniform(-1, 3)
                    elif nm == "i_max":
                        ch[nm] = [10 ** flt.uniform(-3, 0.3) for _ in range(3)]
                    else:
                        ch[nm] = [10 ** flt.uniform(-2, 0.5) for _ in range(3)]
                op["knobs"] = ch
            elif kind == "feedforward_accel":
                op["at_w"] = [flt.choice([0.0, flt.uniform(-8, 8)]) for _ in range(3)]
            elif kind == "att_scale":
                op["s"] = flt.choice([0.9, 0.999, 1.0, 1.001, 1.1])
            ops.append(op)
    return {
        "family": NAME, "seed": seed, "n_ticks": n, "dt": 0.01, "jitter": knobs.choice([0.0, 0.1, 0.3, 0.5]),
        "knobs": kn, "x0": x0,
        "input_mode": ic.choice(["velocity", "velocity", "auto_level", "acro"]),
        "control_mode": ic.choice(["mellinger", "loglinear"]),
        "ops": ops, "sched_seed": seed, "budget": 100000,
    }


# ---------------------------------------------------------------------------
def _euler_yaw_pitch(R):
    return math.atan2(R[1, 0], R[0, 0]), -math.asin(max(-1.0, min(1.0, R[2, 0])))


def run(scn):
    bootstrap()
    import simpy
    from cyecca.models import rdd2, rdd2_loglinear

    rec = Recorder(keep=500)
    viol = []
    harness_error = None
    kn = dict(scn["knobs"])
    probes = {"yaw_wrapped": 0, "leash_active": 0, "integrator_clamped": 0, "z_integrator_clamped": 0, "p_term_saturated": 0, "q0_negative_seen": 0,
              "sign_flip_checked": 0, "shadow_zero_checks": 0, "reset_checked": 0, "plant_failed": 0, "ticks": 0, "not_judged_nonfinite": 0,
              "calls_attitude_control": 0, "calls_so3_attitude_control": 0, "calls_se23_error": 0, "calls_position_control": 0,
              "calls_se23_position_control": 0, "calls_input_velocity": 0, "calls_input_auto_level": 0, "calls_input_acro": 0,
              "calls_attitude_rate_control": 0, "long_way_round_commanded": 0, "setpoint_quat_not_unit": 0, "near_pi_not_judged": 0, "non_unit_quaternion_judged": 0, "integrator_memory_changed_by_caller": 0, "setpoint_memory_changed_by_caller": 0, "shadow_half_turn_checks": 0}
    faults = {}
    mem = {"rate_calls": 0, "pos_calls": 0, "prev_i1": None, "prev_zi2": None, "prev_psi": None, "prev_pwsp": None, "force_reset": 0}

    def fault(k, n=1):
        faults[k] = faults.get(k, 0) + n

    saved = (rdd2.z_integral_max, rdd2_loglinear.z_integral_max, rdd2.m, rdd2_loglinear.m)
    rdd2.z_integral_max = kn["z_integral_max"]
    rdd2_loglinear.z_integral_max = kn["z_integral_max"]
    m_ctrl = {"rdd2": rdd2.m, "loglinear": rdd2_loglinear.m}
    if kn.get("m_ctrl"):
        rdd2.m = rdd2_loglinear.m = float(kn["m_ctrl"])
        m_ctrl = {"rdd2": rdd2.m, "loglinear": rdd2_loglinear.m}
    try:
        env, node, buf = make_node(scn, rec, scn.get("budget", 100000))
    finally:
        rdd2.z_integral_max, rdd2_loglinear.z_integral_max, rdd2.m, rdd2_loglinear.m = saved
    if kn["z_integral_max"] != 0.0 or kn["i_max"] != [0.0, 0.0, 0.0]:
        fault("knob_randomisation")

    def violation(cls, site, msg, **at):
        if not any(v["cls"] == cls and v["site"] == site for v in viol) and len(viol) < 20:
            viol.append({"prop": "C15", "cls": cls, "site": site, "msg": msg, "at": at, "t": float(env.now), "gseq": rec.gseq})

    def finite(*arrs):
        ok = all(np.all(np.isfinite(a)) for a in arrs)
        if not ok:
            probes["not_judged_nonfinite"] += 1
        return ok

    real = dict(node.eqs)

    # ---- argument substitution (knob randomisation) --------------------------
    def sub_rate(args):
        a = list(args)
        a[0], a[1], a[2], a[3], a[4] = kn["kp_rate"], kn["ki_rate"], kn["kd_rate"], kn["f_cut"], kn["i_max"]
        return tuple(a)

    def sub_kp0(args):
        a = list(args)
        a[0] = kn["kp_att"]
        return tuple(a)

    def sub_se23pos(args):
        a = list(args)
        a[1] = kn["kp_att"]
        if kn.get("thrust_trim"):
            a[0] = kn["thrust_trim"]
        if any(kn.get("at_w", [0, 0, 0])):
            a[3] = kn["at_w"]
        return tuple(a)

    def sub_stick(args):
        a = list(args)
        if kn.get("thrust_trim"):
            a[0] = kn["thrust_trim"]
        if kn.get("thrust_delta"):
            a[1] = kn["thrust_delta"]
        return tuple(a)

    def sub_pos(args):
        a = list(args)
        if kn.get("thrust_trim"):
            a[0] = kn["thrust_trim"]
        if any(kn.get("at_w", [0, 0, 0])):
            a[3] = kn["at_w"]
        return tuple(a)

    def sub_velocity(args):
        a = list(args)
        if mem["force_reset"] > 0:
            mem["force_reset"] -= 1
            a[5] = True
        return tuple(a)

    # ---- monitors ---------------------------------------------------------------
    def mon_rate(args, out):
        probes["calls_attitude_rate_control"] += 1
        kp, ki, kd, f_cut, i_max, om, om_r, i0, e0, de0, dt = args
        i_max, i0 = vec(i_max), np.broadcast_to(vec(i0), (3,)) if vec(i0).size == 1 else vec(i0)
        M, i1, e1, de1, alpha = [vec(o) for o in out]
        dt = float(dt)
        mem["rate_calls"] += 1
        rec.rec(env.now, "call", "rate", i1=i1)
        if not finite(vec(om), vec(om_r), i0, vec(e0), vec(de0)) or not (dt > 0):
            return
        if not np.all(np.abs(i1) <= i_max):
            violation("integrator_exceeds_limit", "attitude_rate_control", "integrator output %s outside +-i_max %s" % (i1.tolist(), i_max.tolist()))
        if np.any(np.abs(i1) == i_max) and np.any(i_max > 0):
            probes["integrator_clamped"] += 1
        a = float(alpha[0])
        if not (0.0 < a < 1.0):
            violation("filter_coefficient_out_of_range", "attitude_rate_control", "derivative filter coefficient alpha=%r for dt=%r f_cut=%r (must be strictly between 0 and 1)" % (a, dt, float(f_cut)))
        if mem["rate_calls"] >= 2:
            if mem["prev_i1"] is not None and i0.tobytes() != mem["prev_i1"].tobytes():
                # how the caller carries the memory (e.g. a reset on a mode switch) is its own business; the
                # property bounds the state in the loop, which the next check reads
                probes["integrator_memory_changed_by_caller"] += 1
            if mem.get("prev_imax") is not None and mem["prev_imax"].tobytes() == i_max.tobytes() and not np.all(np.abs(i0) <= i_max):
                violation("integrator_exceeds_limit", "Simulator.update_controller", "fed-back integrator state %s outside +-i_max %s" % (i0.tolist(), i_max.tolist()))
        mem["prev_i1"] = i1.copy()
        mem["prev_imax"] = i_max.copy()
        if not np.allclose(e1, vec(om_r) - vec(om), rtol=0, atol=1e-12):
            violation("rate_error_wrong", "attitude_rate_control", "e1 is not omega_r - omega")

    def check_force(site, mod, thrust_trim, z_i, nT, q_r, z_i_2):
        zmax = kn["z_integral_max"]
        pmax = 0.3 * m_ctrl["rdd2" if mod is rdd2 else "loglinear"] * mod.g  # the mass the functions were derived with
        c = thrust_trim + mod.ki_z * z_i
        if not finite(np.array([thrust_trim, z_i, nT, z_i_2]), q_r):
            return
        if not (abs(z_i_2) <= zmax):
            violation("height_integrator_exceeds_limit", site, "height integrator %r outside +-%r" % (z_i_2, zmax))
        if zmax > 0 and abs(z_i_2) == zmax:
            probes["z_integrator_clamped"] += 1
        if not (abs(nT - abs(c)) <= pmax * (1 + 1e-9)):
            violation("feedback_term_exceeds_30pct_weight", site, "|thrust %r - |trim+integral| %r| = %r exceeds 0.3*m*g = %r" % (nT, abs(c), abs(nT - abs(c)), pmax))
        if abs(abs(nT - abs(c)) - pmax) <= 1e-6 * pmax:
            probes["p_term_saturated"] += 1
        if nT > 1e-3 and abs(np.linalg.norm(q_r) - 1) < 1e-9:
            F = nT * rm.quat_to_R(q_r)[:, 2]
            d = float(np.linalg.norm(F - np.array([0, 0, c])))
            if not (d <= pmax * (1 + 1e-6)):
                violation("feedback_term_exceeds_30pct_weight", site, "commanded force %s differs from trim+integral (0,0,%r) by %r > 0.3*m*g = %r" % (F.tolist(), c, d, pmax))
            if abs(d - pmax) <= 1e-6 * pmax:
                probes["p_term_saturated"] += 1
        elif abs(np.linalg.norm(q_r) - 1) >= 1e-9:
            probes["setpoint_quat_not_unit"] += 1

    def feed_z(site, z_i):
        mem["pos_calls"] += 1
        if mem["pos_calls"] >= 2 and np.isfinite(z_i):
            if not (abs(z_i) <= kn["z_integral_max"]):
                violation("height_integrator_exceeds_limit", "Simulator.update_controller", "fed-back height integrator %r outside +-%r" % (z_i, kn["z_integral_max"]))

    def mon_pos(args, out):
        probes["calls_position_control"] += 1
        thrust_trim, pt, vt, at, qc, p, v, z_i, dt = args
        nT, q_r, z2 = float(out[0]), vec(out[1]), float(out[2])
        rec.rec(env.now, "call", "pos", nT=nT)
        feed_z("position_control", float(z_i))
        check_force("position_control", rdd2, float(thrust_trim), float(z_i), nT, q_r, z2)

    def mon_se23pos(args, out):
        probes["calls_se23_position_control"] += 1
        thrust_trim, kp, zeta, at, qc, z_i, dt = args
        nT, q_r, z2 = float(out[0]), vec(out[1]), float(out[2])
        rec.rec(env.now, "call", "se23pos", nT=nT)
        feed_z("se23_position_control", float(z_i))
        check_force("se23_position_control", rdd2_loglinear, float(thrust_trim), float(z_i), nT, q_r, z2)

    def mon_velocity(args, out):
        probes["calls_input_velocity"] += 1
        dt, psi_sp, pw_sp, pw, aetr, reset = args
        dt, psi_sp, pw_sp, pw, aetr = float(dt), float(psi_sp), vec(pw_sp), vec(pw), vec(aetr)
        psi1, psiv, pw1, vw, aw, qsp = float(out[0]), float(out[1]), vec(out[2]), vec(out[3]), vec(out[4]), vec(out[5])
        rec.rec(env.now, "call", "vel", psi1=psi1)
        if mem["prev_psi"] is not None and (psi_sp != mem["prev_psi"] or pw_sp.tobytes() != mem["prev_pwsp"].tobytes()):
            probes["setpoint_memory_changed_by_caller"] += 1
        mem["prev_psi"], mem["prev_pwsp"] = psi1, pw1.copy()
        if not finite(np.array([dt, psi_sp]), pw_sp, pw, aetr):
            return
        if not (-math.pi <= psi1 <= math.pi):
            violation("yaw_setpoint_out_of_range", "input_velocity", "yaw set-point %r outside [-pi, pi] (previous %r, rudder %r, dt %r)" % (psi1, psi_sp, aetr[3], dt))
        raw = psi_sp + math.radians(60) * aetr[3] * dt
        if abs(raw) > math.pi:
            probes["yaw_wrapped"] += 1
        if abs(math.cos(psi1) - math.cos(raw)) > 1e-9 or abs(math.sin(psi1) - math.sin(raw)) > 1e-9:
            violation("yaw_setpoint_wrong", "input_velocity", "yaw set-point %r is not (previous %r + rate*dt) modulo 2 pi" % (psi1, psi_sp))
        dist = float(np.linalg.norm(pw1 - pw))
        if not (dist <= 2.0 * (1 + 1e-12)):
            violation("position_setpoint_beyond_leash", "input_velocity", "position set-point %r m from the vehicle (limit 2 m)" % dist)
        if dist >= 2.0 * (1 - 1e-9):
            probes["leash_active"] += 1
        if bool(reset):
            probes["reset_checked"] += 1
            if pw1.tobytes() != pw.tobytes():
                violation("reset_not_on_vehicle", "input_velocity", "after reset the position set-point is %s, the vehicle is at %s" % (pw1.tolist(), pw.tolist()))
        vexp = rm.Rz(psi1) @ np.array([2 * aetr[1], -2 * aetr[0], aetr[2]])
        if not np.allclose(vw, vexp, rtol=0, atol=1e-12) or abs(psiv - math.radians(60) * aetr[3]) > 1e-12:
            violation("stick_map_not_linear", "input_velocity", "velocity / yaw-rate set-points are not the stated linear map of the sticks")

    def mon_acro(args, out):
        probes["calls_input_acro"] += 1
        trim, delta, aetr = float(args[0]), float(args[1]), vec(args[2])
        w, thrust = vec(out[0]), float(out[1])
        rec.rec(env.now, "call", "acro", w=w)
        wexp = np.array([math.radians(rdd2.rollpitch_rate_max) * aetr[0], math.radians(rdd2.rollpitch_rate_max) * aetr[1], math.radians(rdd2.yaw_rate_max) * aetr[3]])
        if not np.allclose(w, wexp, rtol=0, atol=1e-12) or abs(thrust - (aetr[2] * delta + trim)) > 1e-9:
            violation("stick_map_not_linear", "input_acro", "rate / thrust commands are not the stated linear map of the sticks")
        if np.any(np.abs(w) > math.radians(max(rdd2.rollpitch_rate_max, rdd2.yaw_rate_max)) + 1e-12):
            violation("stick_command_unbounded", "input_acro", "rate command %s beyond the configured maximum for sticks in [-1, 1]" % w.tolist())

    def mon_auto_level(args, out):
        probes["calls_input_auto_level"] += 1
        trim, delta, aetr, q = float(args[0]), float(args[1]), vec(args[2]), vec(args[3])
        q_r, thrust = vec(out[0]), float(out[1])
        rec.rec(env.now, "call", "auto_level", q_r=q_r)
        if not finite(q, aetr):
            return
        if abs(thrust - (aetr[2] * delta + trim)) > 1e-9:
            violation("stick_map_not_linear", "input_auto_level", "thrust is not trim + stick*delta")
        R = rm.quat_to_R(q)
        if abs(R[2, 0]) > 0.999:
            return  # gimbal band of the Euler extraction: not judged
        yaw, _ = _euler_yaw_pitch(R)
        Rexp = rm.Rz(yaw + math.radians(rdd2.yaw_rate_max) * aetr[3]) @ rm.Ry(math.radians(rdd2.rollpitch_max) * aetr[1]) @ rm.Rx(math.radians(rdd2.rollpitch_max) * aetr[0])
        if abs(np.linalg.norm(q_r) - 1) > 1e-9:
            probes["setpoint_quat_not_unit"] += 1
        if not (np.linalg.norm(q_r) > 1e-6):
            violation("stick_map_not_linear", "input_auto_level", "attitude set-point quaternion %s does not represent a rotation" % q_r.tolist())
            return
        err = rm.rot_angle(Rexp.T @ rm.quat_to_R(q_r))  # quat_to_R normalises
        if err > 1e-7:
            violation("stick_map_not_linear", "input_auto_level", "attitude set-point is %.3e rad away from yaw+60deg*rudder, 30deg*elevator, 30deg*aileron" % err)

    def shadow_zero(name, f, kp, q):
        """The same rotation as reference, in either quaternion sign, exactly and within rounding."""
        probes["shadow_zero_checks"] += 1
        eps = np.array([1 + 2.2e-16, 1.0, 1 - 1.1e-16, 1.0])
        for label, qr in (("q", q), ("-q", -q), ("q*(1+-ulp)", q * eps), ("-q*(1+-ulp)", -(q * eps))):
            om = vec(f(kp, q, qr))
            if label.startswith("-"):
                probes["sign_flip_checked"] += 1
            if not (np.all(np.isfinite(om)) and np.linalg.norm(om) <= ZERO_TOL * np.linalg.norm(kp)):
                violation("nonzero_command_at_zero_error", name,
                          "%s(kp, q, q_r=%s) = %s for q=%s: measured and reference are the same rotation, the command must vanish" % (name, label, om.tolist(), q.tolist()),
                          same_sign=not label.startswith("-"))
                return

    HALF_TURNS = [([1.0, 0, 0, 0], [0.0, 1, 0, 0]), ([1.0, 0, 0, 0], [0.0, 0, 1, 0]), ([1.0, 0, 0, 0], [0.0, 0, 0, 1]),
                  ([0.0, 0, 0, 1], [1.0, 0, 0, 0]), ([math.sqrt(0.5), 0, 0, math.sqrt(0.5)], [math.sqrt(0.5), 0, 0, -math.sqrt(0.5)]),
                  ([0.0, 1, 0, 0], [0.0, 0, 1, 0])]

    def shadow_half_turn(name, f, kp):
        """Hand-written attitudes exactly half a turn apart (the scalar part of the error quaternion is exactly
        0.0): not the same rotation, so the command must not vanish, and it must be a rotation by pi."""
        probes["shadow_half_turn_checks"] += 1
        for q, qr in HALF_TURNS:
            om = vec(f(kp, np.array(q), np.array(qr)))
            if not np.all(np.isfinite(om)) or not (np.linalg.norm(om) > 0):
                violation("zero_command_at_nonzero_error", name, "%s(kp, q=%s, q_r=%s) = %s although the two attitudes are half a turn apart" % (name, q, qr, om.tolist()))
                return
            if name == "attitude_control" and abs(float(np.linalg.norm(om / kp)) - math.pi) > 1e-6:
                violation("commanded_rotation_misses_reference", name, "%s(kp, q=%s, q_r=%s): commanded rotation angle %r, the attitudes are pi apart" % (name, q, qr, float(np.linalg.norm(om / kp))))
                return

    def judge_attitude_law(name, kp, q, q_r, om, jacobian):
        kp = vec(kp)
        if not finite(q, q_r, kp) or abs(np.linalg.norm(q) - 1) > 0.2 or abs(np.linalg.norm(q_r) - 1) > 0.2:
            return
        if abs(np.linalg.norm(q) - 1) > 1e-6 or abs(np.linalg.norm(q_r) - 1) > 1e-6:
            probes["non_unit_quaternion_judged"] += 1
        Rerr = rm.quat_to_R(q).T @ rm.quat_to_R(q_r)
        ang = rm.rot_angle(Rerr)
        if not np.all(np.isfinite(om)):
            violation("attitude_command_not_finite", name, "%s returned %s for q=%s q_r=%s" % (name, om.tolist(), q.tolist(), q_r.tolist()))
            return
        if ang > 1e-6 and not (np.linalg.norm(om) > 0):
            violation("zero_command_at_nonzero_error", name, "zero command although the attitude error is %r rad" % ang)
        if ang > math.pi - 1e-3:
            probes["near_pi_not_judged"] += 1
            return
        e_pr = rm.rot_log(Rerr)
        cands = [e_pr]
        if ang > 1e-9:
            cands.append(e_pr * (1 - 2 * math.pi / ang))  # the same rotation the long way round
        best = None
        for i, e in enumerate(cands):
            exp = (rm.left_jacobian_so3(e) @ (kp * e)) if jacobian else kp * e
            d = float(np.linalg.norm(om - exp))
            if best is None or d < best[0]:
                best = (d, i, exp)
        scale = max(1.0, float(np.linalg.norm(best[2])))
        if best[0] > REACH_TOL * scale * (1 + 1.0 / max(1e-3, math.pi - ang)):
            # express the failure in the property's words: apply the commanded rotation
            e_cmd = om / kp if not jacobian else None
            if e_cmd is not None:
                reach = rm.rot_angle((rm.quat_to_R(q) @ rm.rot_exp(e_cmd)).T @ rm.quat_to_R(q_r))
                violation("commanded_rotation_misses_reference", name, "applying the commanded rotation omega/kp to the measured attitude ends %.3e rad from the reference (error angle %.4f rad)" % (reach, ang))
            else:
                violation("commanded_rotation_misses_reference", name, "command %s is not J_l(e) (kp*e) for a rotation vector e taking the measured attitude to the reference (error angle %.4f rad, mismatch %.3e)" % (om.tolist(), ang, best[0]))
        elif best[1] == 1:
            probes["long_way_round_commanded"] += 1

    def mon_att(args, out):
        probes["calls_attitude_control"] += 1
        kp, q, q_r = vec(args[0]), vec(args[1]), vec(args[2])
        om = vec(out[0])
        rec.rec(env.now, "call", "att", om=om)
        if q[0] < 0 or q_r[0] < 0:
            probes["q0_negative_seen"] += 1
        judge_attitude_law("attitude_control", kp, q, q_r, om, False)
        if probes["calls_attitude_control"] % 25 == 1 and finite(q) and abs(np.linalg.norm(q) - 1) < 0.2:
            shadow_zero("attitude_control", real["attitude_control"], kp, q)
            shadow_half_turn("attitude_control", real["attitude_control"], kp)

    def mon_so3att(args, out):
        probes["calls_so3_attitude_control"] += 1
        kp, q, q_r = vec(args[0]), vec(args[1]), vec(args[2])
        om = vec(out[0])
        rec.rec(env.now, "call", "so3att", om=om)
        if q[0] < 0 or q_r[0] < 0:
            probes["q0_negative_seen"] += 1
        judge_attitude_law("so3_attitude_control", kp, q, q_r, om, True)
        if probes["calls_so3_attitude_control"] % 25 == 1 and finite(q) and abs(np.linalg.norm(q) - 1) < 0.2:
            shadow_zero("so3_attitude_control", real["so3_attitude_control"], kp, q)
            shadow_half_turn("so3_attitude_control", real["so3_attitude_control"], kp)

    def mon_se23err(args, out):
        probes["calls_se23_error"] += 1
        p, v, q, p_r, v_r, q_r = [vec(a) for a in args]
        zeta = vec(out[0])
        rec.rec(env.now, "call", "se23err", zeta=zeta)
        if not finite(p, v, q, p_r, v_r, q_r) or abs(np.linalg.norm(q) - 1) > 0.2 or abs(np.linalg.norm(q_r) - 1) > 0.2:
            return
        if not np.all(np.isfinite(zeta)):
            violation("attitude_command_not_finite", "se23_error", "se23_error returned a non-finite value")
            return
        ang = rm.rot_angle(rm.quat_to_R(q).T @ rm.quat_to_R(q_r))
        if ang > math.pi - 1e-3:
            probes["near_pi_not_judged"] += 1
            return
        reach = rm.rot_angle((rm.quat_to_R(q) @ rm.rot_exp(zeta[6:9])).T @ rm.quat_to_R(q_r))
        if reach > REACH_TOL * (1 + 1.0 / max(1e-3, math.pi - ang)):
            violation("commanded_rotation_misses_reference", "se23_error", "rotational part of the SE_2(3) error applied to the measured attitude ends %.3e rad from the reference" % reach)
        # shadow calls: the SE_2(3) attitude law (not wired into the script) on the error just computed, and
        # its zero set for the same rotation in either quaternion sign
        if probes["calls_se23_error"] % 25 == 1 and "se23_attitude_control" in real:
            probes["shadow_zero_checks"] += 1
            kp = vec(kn["kp_att"])
            om = vec(real["se23_attitude_control"](kp, zeta))
            judge_attitude_law("se23_attitude_control", kp, q, q_r, om, True)
            for label, qq in (("q", q), ("-q", -q)):
                z0 = vec(real["se23_error"](p, v, q, p, v, qq))
                o0 = vec(real["se23_attitude_control"](kp, z0))
                if not (np.all(np.isfinite(o0)) and np.linalg.norm(o0) <= ZERO_TOL * np.linalg.norm(kp)):
                    violation("nonzero_command_at_zero_error", "se23_attitude_control",
                              "se23_attitude_control(kp, se23_error(X, X_r)) = %s with X_r = X (attitude given as %s): the command must vanish" % (o0.tolist(), label), same_sign=(label == "q"))
                    break

    monitors = {"attitude_rate_control": mon_rate, "position_control": mon_pos, "se23_position_control": mon_se23pos, "input_velocity": mon_velocity,
                "input_acro": mon_acro, "input_auto_level": mon_auto_level, "attitude_control": mon_att, "so3_attitude_control": mon_so3att,
                "se23_error": mon_se23err}
    subst = {"position_control": sub_pos, "attitude_rate_control": sub_rate, "attitude_control": sub_kp0, "so3_attitude_control": sub_kp0, "se23_position_control": sub_se23pos,
             "input_velocity": sub_velocity, "input_acro": sub_stick, "input_auto_level": sub_stick}
    common.wrap_eqs(node, monitors, subst)

    # ---- glitches between plant and controller ---------------------------------
    gl = {"flip": False, "jump": None, "pos": None, "stale": 0, "scale": 1.0}
    real_update = node.update_fake_estimator

    def glitchy_update():
        if gl["stale"] > 0:
            gl["stale"] -= 1
            return
        real_update()
        if gl["jump"] is not None:
            node.q = rm.quat_mul(vec(node.q), rm.quat_exp(gl["jump"]))
            gl["jump"] = None
        if gl["pos"] is not None:
            node.pw = vec(node.pw) + gl["pos"]
            gl["pos"] = None
        if gl["flip"]:
            node.q = -vec(node.q)
        if gl["scale"] != 1.0:
            node.q = gl["scale"] * vec(node.q)  # an estimator that does not renormalise: same attitude

    node.update_fake_estimator = glitchy_update

    sched = stream(scn["sched_seed"], "schedule")
    ops_by_k = {}
    for op in scn["ops"]:
        ops_by_k.setdefault(int(op["k"]), []).append(op)

    try:
        with contextlib.redirect_stdout(buf):
            node.psi_sp = float(kn["psi_sp0"])
            node.pw_sp = np.array(scn["x0"][0:3], dtype=float)
            node.input_mode = scn["input_mode"]
            node.control_mode = scn["control_mode"]
            timer = node.timers[0]
            sticks = [0.0, 0.0, 0.0, 0.0]

            def ticker():
                t = 0.0
                skip = 0
                for k in range(1, scn["n_ticks"] + 1):
                    dt = scn["dt"] * (1 + scn["jitter"] * (2 * sched.random() - 1))
                    if scn["jitter"]:
                        fault("tick_jitter")
                    for op in ops_by_k.get(k, []):
                        o = op["op"]
                        if o == "sticks":
                            sticks[:] = [max(-1.0, min(1.0, float(v))) for v in op["aetr"]]
                            fault(op.get("tag", "stick_step"))
                            node.joy_callback(common.joy(common.sticks_to_axes(sticks)))
                        elif o == "mode":
                            fault("mode_switch")
                            if op["mode"] == "acro":
                                node.input_mode = "acro"  # not reachable through the joystick buttons
                            else:
                                node.joy_callback(common.joy(common.sticks_to_axes(sticks), [0] if op["mode"] == "auto_level" else [1]))
                        elif o == "control_mode":
                            fault("control_mode_switch")
                            node.joy_callback(common.joy(common.sticks_to_axes(sticks), [4] if op["mode"] == "loglinear" else [5]))
                        elif o == "tick_missed":
                            fault(o)
                            dt = dt + scn["dt"]
                        elif o == "tick_long":
                            fault(o)
                            dt = float(op["dt"])
                        elif o == "tick_duplicate":
                            fault(o)
                            dt = DT_MIN
                        elif o == "att_sign_flip":
                            fault(o)
                            gl["flip"] = not gl["flip"]
                        elif o == "att_jump":
                            fault(o)
                            gl["jump"] = np.array(op["rotvec"], dtype=float)
                        elif o == "pos_jump":
                            fault(o)
                            gl["pos"] = np.array(op["d"], dtype=float)
                        elif o == "stale_state":
                            fault(o)
                            gl["stale"] = int(op.get("n", 1))
                        elif o == "position_reset":
                            fault(o)
                            mem["force_reset"] = 1
                        elif o == "knob_change":
                            fault(o)
                            kn.update(op["knobs"])
                        elif o == "feedforward_accel":
                            fault(o)
                            kn["at_w"] = list(op["at_w"])
                        elif o == "att_scale":
                            fault(o)
                            gl["scale"] = float(op["s"])
                    dt = max(DT_MIN, dt)
                    t += dt
                    yield env.at(t)
                    node.dt = dt
                    try:
                        timer.callback()
                    except RuntimeError as e:
                        if exception_origin(e) in ("repo", "lib") and ("integration" in str(e) or "cvodes" in str(e).lower() or "CVode" in str(e)):
                            probes["plant_failed"] += 1  # the vehicle left the plant's integrable regime; C15 does not speak about that
                            return
                        raise
                    probes["ticks"] += 1
                    rec.rec(env.now, "tick", None, x=node.x)
                    if not np.all(np.isfinite(node.x)):
                        probes["plant_failed"] += 1
                        return

            simpy.Process(env, ticker())
            env.run()
    except BudgetExceeded as e:
        harness_error = "budget: %s" % e
    except Exception as e:
        import traceback

        where = exception_origin(e)
        if where == "harness":
            harness_error = "exception (%s): %s\n%s" % (where, e, traceback.format_exc()[-2500:])
        else:
            # not one of C15's clauses; the run ends here and the event is counted (a batch in which most
            # runs end like this is reported as vacuous by the runner)
            probes["exception_in_controller"] = probes.get("exception_in_controller", 0) + 1
            rec.rec(env.now, "exception", type(e).__name__)

    return {
        "violations": viol, "harness_error": harness_error,
        "counters": {"ticks": probes["ticks"], "events": env.sim_steps},
        "faults": faults, "probes": probes,
        "sig": rec.signature(), "digest": rec.digest(), "sim_s": float(env.now), "events": env.sim_steps,
        "nontrivial": bool(faults),
        "progress": probes["ticks"] / float(max(1, scn["n_ticks"])),
    }


def sample(scn):
    return {"family": NAME, "seed": scn["seed"], "n_ticks": scn["n_ticks"], "jitter": scn["jitter"], "knobs": scn["knobs"],
            "input_mode": scn["input_mode"], "control_mode": scn["control_mode"], "first_ops": scn["ops"][:8], "n_ops": len(scn["ops"])}


LIST_KEYS = ("ops",)


def simplify(scn):
    out = []
    if scn["jitter"]:
        out.append(dict(scn, jitter=0.0))
    last = max([o["k"] for o in scn["ops"]] + [0])
    for n in (20, 60, 150, 300):
        if last < n < scn["n_ticks"]:
            out.append(dict(scn, n_ticks=n))
            break
    shipped = {"kp_rate": [0.3, 0.3, 0.05], "ki_rate": [0.0, 0.0, 0.0], "kd_rate": [0.1, 0.1, 0.0], "f_cut": 10.0, "i_max": [0.0, 0.0, 0.0],
               "kp_att": [5.0, 5.0, 2.0], "z_integral_max": 0.0, "psi_sp0": 0.0, "at_w": [0.0, 0.0, 0.0], "thrust_trim": None, "m_ctrl": None}
    for k, v in shipped.items():
        if scn["knobs"].get(k, v) != v:
            kn = dict(scn["knobs"])
            kn[k] = v
            out.append(dict(scn, knobs=kn))
    level = list(scn["x0"])
    level[6:10] = [1.0, 0.0, 0.0, 0.0]
    if level != scn["x0"]:
        out.append(dict(scn, x0=level))
    for m in ("velocity",):
        if scn["input_mode"] != m:
            out.append(dict(scn, input_mode=m))
    if scn["control_mode"] != "mellinger":
        out.append(dict(scn, control_mode="mellinger"))
    return out
