"""C08 (history part): two strapdown-INS replicas consume the same piecewise-constant IMU
stream on different seeded tick schedules (jittered interior ticks, duplicate ticks with
dt = 0, missed ticks); at every segment boundary both must agree with each other and with
the exact flow computed in 40-digit arithmetic.

Real code : models.rdd2.derive_strapdown_ins_propagation() -> strapdown_ins_propagate
            (lie.SE23Quat.exp_mixed, calculate_N, SO3Quat.exp / product)
Stubs     : IMU source (segments), the two timers
Reference : ExactIns (mpmath, closed form)
"""
import math

import mpmath as mp
import numpy as np

from dsim import bootstrap
from dsim.kernel import BudgetExceeded, Recorder, SimEnv, stream
from dsim.util import exception_origin

NAME = "ins_bench"
PROPS = ("C08",)

mp.mp.dps = 40
STEP_TOL = 5e-13  # per step, relative to the scale of the state (calibrated: worst observed 2e-14)
QNORM_TOL = 1e-9
_fn = None


def setup():
    global _fn
    bootstrap()
    from cyecca.models import rdd2

    if _fn is None:
        _fn = rdd2.derive_strapdown_ins_propagation()["strapdown_ins_propagate"]
    return _fn


# ---------------------------------------------------------------------------
# exact flow in extended precision
# ---------------------------------------------------------------------------
def _hat(v):
    return mp.matrix([[0, -v[2], v[1]], [v[2], 0, -v[0]], [-v[1], v[0], 0]])


def _q_to_R(q):
    w, x, y, z = q
    return mp.matrix([
        [1 - 2 * (y * y + z * z), 2 * (x * y - z * w), 2 * (x * z + y * w)],
        [2 * (x * y + z * w), 1 - 2 * (x * x + z * z), 2 * (y * z - x * w)],
        [2 * (x * z - y * w), 2 * (y * z + x * w), 1 - 2 * (x * x + y * y)]])


def _qmul(a, b):
    return [a[0] * b[0] - a[1] * b[1] - a[2] * b[2] - a[3] * b[3],
            a[0] * b[1] + a[1] * b[0] + a[2] * b[3] - a[3] * b[2],
            a[0] * b[2] - a[1] * b[3] + a[2] * b[0] + a[3] * b[1],
            a[0] * b[3] + a[1] * b[2] - a[2] * b[1] + a[3] * b[0]]


def exact_step(state, a, w, g, dt):
    """state = (p[3], v[3], q[4]) as mpf lists.  Closed-form solution at time dt of
    p' = v, v' = R a - g e3, R' = R [w]x with constant body-frame a, w."""
    p, v, q = state
    dt = mp.mpf(dt)
    a = mp.matrix([mp.mpf(x) for x in a])
    phi = [mp.mpf(x) * dt for x in w]
    th = mp.sqrt(phi[0] ** 2 + phi[1] ** 2 + phi[2] ** 2)
    K = _hat(phi)
    K2 = K * K
    I = mp.eye(3)
    if th < mp.mpf("1e-8"):
        c1, c2, c3 = mp.mpf(1) / 2 - th ** 2 / 24, mp.mpf(1) / 6 - th ** 2 / 120, mp.mpf(1) / 24 - th ** 2 / 720
        s2 = mp.mpf(1) / 2 - th ** 2 / 48  # sin(th/2)/th
    else:
        c1 = (1 - mp.cos(th)) / th ** 2
        c2 = (th - mp.sin(th)) / th ** 3
        c3 = (th ** 2 / 2 + mp.cos(th) - 1) / th ** 4
        s2 = mp.sin(th / 2) / th
    G1 = dt * (I + c1 * K + c2 * K2)
    G2 = dt ** 2 * (I / 2 + c2 * K + c3 * K2)
    R0 = _q_to_R(q)
    e3 = mp.matrix([0, 0, 1])
    g = mp.mpf(g)
    pv = mp.matrix(p)
    vv = mp.matrix(v)
    p1 = pv + vv * dt + R0 * (G2 * a) - g * e3 * dt ** 2 / 2
    v1 = vv + R0 * (G1 * a) - g * e3 * dt
    dq = [mp.cos(th / 2), s2 * phi[0], s2 * phi[1], s2 * phi[2]]
    q1 = _qmul(q, dq)
    return ([p1[i] for i in range(3)], [v1[i] for i in range(3)], q1)


def to_mp_state(x):
    x = [mp.mpf(float(v)) for v in x]
    return (x[0:3], x[3:6], x[6:10])


def state_err(x, ref):
    """(position error, velocity error, quaternion error up to sign) as floats."""
    p, v, q = ref
    pe = math.sqrt(sum(float(mp.mpf(float(x[i])) - p[i]) ** 2 for i in range(3)))
    ve = math.sqrt(sum(float(mp.mpf(float(x[3 + i])) - v[i]) ** 2 for i in range(3)))
    qa = math.sqrt(sum(float(mp.mpf(float(x[6 + i])) - q[i]) ** 2 for i in range(4)))
    qb = math.sqrt(sum(float(mp.mpf(float(x[6 + i])) + q[i]) ** 2 for i in range(4)))
    return pe, ve, min(qa, qb)


# ---------------------------------------------------------------------------
def gen(seed, tier="quick"):
    ic = stream(seed, "topology")
    work = stream(seed, "workload")
    flt = stream(seed, "faults")
    knobs = stream(seed, "knobs")

    def unit(r):
        v = np.array([r.gauss(0, 1) for _ in range(3)])
        return v / np.linalg.norm(v)

    ang = ic.uniform(0, math.pi)
    ax = unit(ic)
    q = [math.cos(ang / 2)] + (math.sin(ang / 2) * ax).tolist()
    if ic.random() < 0.5:
        q = [-c for c in q]
    x0 = [ic.uniform(-100, 100) for _ in range(3)] + [ic.uniform(-20, 20) for _ in range(3)] + q
    g = knobs.choice([0.0, 1.62, 9.8, 9.80665, 24.8])
    n_seg = work.randint(2, 8 if tier == "quick" else 20)
    segs = []
    for _ in range(n_seg):
        r = work.random()
        if r < 0.15:
            w = [0.0, 0.0, 0.0]
        else:
            mag = 10 ** work.uniform(-8, math.log10(50))
            w = (mag * unit(work)).tolist()
            if work.random() < 0.2:
                # land the per-tick angle near the small-angle switch of the series (theta^2 ~ 1e-3 ... )
                w = (work.choice([0.0316, 0.03, 0.033, 1e-3, 0.1]) / 0.01 * unit(work)).tolist()
        a = ((10 ** work.uniform(-3, 2)) * unit(work)).tolist() if work.random() < 0.9 else [0.0, 0.0, 0.0]
        dur = work.choice([0.001, 0.01, 0.1, 0.5, 1.0, 3.0] if tier == "quick" else [0.001, 0.01, 0.1, 1.0, 3.0, 10.0])
        segs.append({"dur": dur, "a": a, "w": w})

    def schedule(r, base):
        """Interior tick fractions per segment (the segment boundaries are always ticks)."""
        out = []
        for s in segs:
            n = max(0, min(int(s["dur"] / base), 60 if tier == "quick" else 300))
            fr = sorted(r.random() for _ in range(r.randint(0, n))) if n else []
            ev = []
            for f in fr:
                k = flt.random()
                if k < 0.03:
                    ev.append({"f": f, "fault": "tick_duplicate"})
                    ev.append({"f": f, "fault": None})
                elif k < 0.06:
                    continue  # tick_missed: simply no tick here
                else:
                    ev.append({"f": f, "fault": None})
            if flt.random() < 0.1:
                ev.insert(0, {"f": 0.0, "fault": "tick_duplicate"})
            if flt.random() < 0.05:
                ev.append({"f": 1e-9, "fault": "tiny_first_step"})
            ev.sort(key=lambda e: e["f"])
            out.append(ev)
        return out

    return {
        "family": NAME, "seed": seed, "x0": x0, "g": g, "segs": segs,
        "sched_a": schedule(stream(seed, "schedule"), knobs.choice([0.01, 0.005, 0.02])),
        "sched_b": schedule(stream(seed, "schedule-b"), knobs.choice([0.01, 0.05, 0.001])),
        "budget": 200000,
    }


def run(scn):
    import simpy

    f = setup()
    rec = Recorder(keep=300)
    env = SimEnv("fifo", None, scn.get("budget", 200000), rec)
    viol = []
    probes = {"taylor_side": 0, "closed_form_side": 0, "omega_exact_zero": 0, "dt_zero": 0, "theta_gt_pi": 0, "steps": 0, "boundaries_checked": 0, "q0_negative": 0}
    faults = {}
    worst = {"step_rel": 0.0, "replica_rel": 0.0, "qnorm": 0.0}
    harness_error = None

    def violation(cls, site, msg, **at):
        if not any(v["cls"] == cls for v in viol):
            viol.append({"prop": "C08", "cls": cls, "site": site, "msg": msg, "at": at, "t": float(env.now), "gseq": rec.gseq})

    g = scn["g"]
    bounds = [0.0]
    for s in scn["segs"]:
        bounds.append(bounds[-1] + s["dur"])
    at_boundary = {}

    def scale_of(x, a, dt_total):
        return 1.0 + float(np.linalg.norm(x[0:3])) + float(np.linalg.norm(x[3:6])) * max(dt_total, 1.0) + (float(np.linalg.norm(a)) + g) * dt_total ** 2

    def step(x, a, w, dt, who):
        x1 = np.array(f(x, a, w, g, dt), dtype=float).reshape(-1)
        probes["steps"] += 1
        th = float(np.linalg.norm(w)) * dt
        if dt == 0:
            probes["dt_zero"] += 1
        if float(np.linalg.norm(w)) == 0:
            probes["omega_exact_zero"] += 1
        if th * th < 1e-3:
            probes["taylor_side"] += 1
        else:
            probes["closed_form_side"] += 1
        if th > math.pi:
            probes["theta_gt_pi"] += 1
        if x1[6] < 0:
            probes["q0_negative"] += 1
        rec.rec(env.now, "step", who, x1=x1)
        if not np.all(np.isfinite(x1)):
            violation("ins_not_finite", "strapdown_ins_propagate", "non-finite result for dt=%r |w|=%r |a|=%r" % (dt, float(np.linalg.norm(w)), float(np.linalg.norm(a))))
            return x1
        # point-wise exactness against the 40-digit closed form
        ref = exact_step(to_mp_state(x), a, w, g, dt)
        pe, ve, qe = state_err(x1, ref)
        sc = scale_of(x, a, dt)
        rel = max(pe, ve) / sc
        worst["step_rel"] = max(worst["step_rel"], rel, qe)
        if rel > STEP_TOL or qe > STEP_TOL:
            violation("ins_step_not_exact_flow", "strapdown_ins_propagate",
                      "one step dt=%r |w|dt=%.3e: position error %.3e, velocity error %.3e, quaternion error %.3e against the exact solution (tolerance %.1e * scale %.3e)" % (dt, th, pe, ve, qe, STEP_TOL, sc),
                      small_angle=bool(th * th < 1e-3))
        if dt == 0 and (np.max(np.abs(x1[0:6] - x[0:6])) > 1e-13 * sc or np.max(np.abs(x1[6:10] - x[6:10])) > 1e-15):
            violation("dt_zero_not_identity", "strapdown_ins_propagate", "propagating by dt = 0 changed the state by %r" % float(np.max(np.abs(x1 - x))))
        qn = abs(float(np.linalg.norm(x1[6:10])) - 1.0)
        worst["qnorm"] = max(worst["qnorm"], qn)
        if qn > QNORM_TOL:
            violation("quaternion_norm_drift", "strapdown_ins_propagate", "attitude quaternion norm deviates from 1 by %.3e after %d steps" % (qn, probes["steps"]))
        return x1

    def replica(name, sched):
        x = np.array(scn["x0"], dtype=float)
        t = 0.0
        nsteps = 0
        for i, s in enumerate(scn["segs"]):
            a, w = np.array(s["a"]), np.array(s["w"])
            ticks = []
            for ev in sched[i] if i < len(sched) else []:
                tt = bounds[i] + ev["f"] * s["dur"]
                if bounds[i] <= tt < bounds[i + 1]:
                    ticks.append((tt, ev.get("fault")))
            ticks.append((bounds[i + 1], "boundary"))
            for tt, flt_kind in ticks:
                if flt_kind and flt_kind != "boundary":
                    faults[flt_kind] = faults.get(flt_kind, 0) + 1
                if tt > env.now:
                    yield env.at(tt)
                dt = tt - t
                x = step(x, a, w, dt, name)
                nsteps += 1
                t = tt
            at_boundary.setdefault(i, {})[name] = (x.copy(), nsteps)
            if len(at_boundary[i]) == 2:
                compare(i)

    ref_state = {"s": to_mp_state(scn["x0"])}
    ref_done = {"i": -1}

    def compare(i):
        while ref_done["i"] < i:
            j = ref_done["i"] + 1
            s = scn["segs"][j]
            ref_state["s"] = exact_step(ref_state["s"], s["a"], s["w"], g, s["dur"])
            # keep the reference quaternion normalised (it is exact up to 1e-40)
            ref_done["i"] = j
        (xa, na), (xb, nb) = at_boundary[i]["A"], at_boundary[i]["B"]
        probes["boundaries_checked"] += 1
        T = bounds[i + 1]
        amax = max(float(np.linalg.norm(s["a"])) for s in scn["segs"][: i + 1])
        sc = 1.0 + float(np.linalg.norm(xa[0:3])) + float(np.linalg.norm(xa[3:6])) * max(T, 1.0) + (amax + g) * T * T
        tol = STEP_TOL * sc * (na + nb + 2)
        d = float(max(np.max(np.abs(xa[0:6] - xb[0:6])), min(np.max(np.abs(xa[6:10] - xb[6:10])), np.max(np.abs(xa[6:10] + xb[6:10])))))
        worst["replica_rel"] = max(worst["replica_rel"], d / (sc * (na + nb + 2)))
        if d > tol:
            violation("replicas_disagree", "strapdown_ins_propagate (composition)",
                      "two replicas fed the same piecewise-constant inputs on different tick schedules (%d vs %d steps) differ by %.3e at t=%r (tolerance %.3e): propagation does not compose" % (na, nb, d, T, tol))
        for nm, xx, n in (("A", xa, na), ("B", xb, nb)):
            pe, ve, qe = state_err(xx, ref_state["s"])
            if max(pe, ve) > STEP_TOL * sc * (n + 1) or qe > STEP_TOL * (n + 1):
                violation("history_not_exact_flow", "strapdown_ins_propagate (history)",
                          "replica %s after %d steps at t=%r: position error %.3e, velocity error %.3e, quaternion error %.3e against the exact flow" % (nm, n, T, pe, ve, qe))

    try:
        simpy.Process(env, replica("A", scn["sched_a"]))
        simpy.Process(env, replica("B", scn["sched_b"]))
        env.run()
    except BudgetExceeded as e:
        harness_error = "budget: %s" % e
    except Exception as e:
        import traceback

        where = exception_origin(e)
        if where == "harness":
            harness_error = "exception (%s): %s\n%s" % (where, e, traceback.format_exc()[-2500:])
        else:
            violation("exception_in_ins", "strapdown_ins_propagate", "%s: %s" % (type(e).__name__, str(e)[:300]))

    return {
        "violations": viol, "harness_error": harness_error,
        "counters": {"steps": probes["steps"], "events": env.sim_steps, "segments": len(scn["segs"])},
        "faults": faults, "probes": probes, "metrics": worst,
        "sig": rec.signature(), "digest": rec.digest(), "sim_s": float(bounds[-1]), "events": env.sim_steps,
        "nontrivial": probes["steps"] > len(scn["segs"]) * 2,
    }


def sample(scn):
    return {"family": NAME, "seed": scn["seed"], "g": scn["g"], "x0": scn["x0"], "segs": scn["segs"][:3], "n_segs": len(scn["segs"]),
            "ticks_a": [len(s) for s in scn["sched_a"]], "ticks_b": [len(s) for s in scn["sched_b"]]}


LIST_KEYS = ()


def simplify(scn):
    out = []
    n = len(scn["segs"])
    if n > 1:
        for drop in range(n - 1, -1, -1):
            out.append(dict(scn, segs=scn["segs"][:drop] + scn["segs"][drop + 1:], sched_a=scn["sched_a"][:drop] + scn["sched_a"][drop + 1:],
                            sched_b=scn["sched_b"][:drop] + scn["sched_b"][drop + 1:]))
    for key in ("sched_a", "sched_b"):
        for i, ev in enumerate(scn[key]):
            if ev:
                s2 = list(scn[key])
                s2[i] = ev[: len(ev) // 2]
                out.append(dict(scn, **{key: s2}))
    if scn["g"] != 0.0:
        out.append(dict(scn, g=0.0))
    x0 = list(scn["x0"])
    if x0[0:6] != [0.0] * 6:
        out.append(dict(scn, x0=[0.0] * 6 + x0[6:]))
    if x0[6:] != [1.0, 0.0, 0.0, 0.0]:
        out.append(dict(scn, x0=x0[0:6] + [1.0, 0.0, 0.0, 0.0]))
    for i, s in enumerate(scn["segs"]):
        if s["a"] != [0.0, 0.0, 0.0]:
            sg = list(scn["segs"])
            sg[i] = dict(s, a=[0.0, 0.0, 0.0])
            out.append(dict(scn, segs=sg))
    return out
