"""In-process fakes of the ROS 2 packages that scripts/rdd2_sim.py imports (none of them
is installed in the sandbox): rclpy, geometry_msgs, nav_msgs, sensor_msgs, rosgraph_msgs,
synapse_msgs, tf2_ros.  The fake Node registers its timer with the simulated clock, its
publishers record, its clock reads the simulation time.  The script itself is loaded
unmodified from the repository under test.
"""
import importlib.util
import os
import sys
import types

from dsim import REPO


class AutoMsg:
    """Attribute-autovivifying message object (msg.header.stamp.sec = 1 just works)."""

    def __init__(self, **kw):
        self.__dict__.update(kw)

    def __getattr__(self, k):
        if k.startswith("__"):
            raise AttributeError(k)
        v = AutoMsg()
        self.__dict__[k] = v
        return v


class Path(AutoMsg):
    def __init__(self):
        super().__init__()
        self.poses = []


class Joy(AutoMsg):
    def __init__(self, axes=None, buttons=None):
        super().__init__()
        self.axes = list(axes) if axes is not None else [0.0] * 8
        self.buttons = list(buttons) if buttons is not None else [0] * 12


class _Pub:
    def __init__(self, node, typ, topic):
        self.node, self.typ, self.topic = node, typ, topic
        self.count = 0
        self.last = None

    def publish(self, msg):
        self.count += 1
        self.last = msg


class _Logger:
    def __init__(self, node):
        self.node = node
        self.lines = []

    def info(self, s):
        self.lines.append(s)

    warn = warning = error = debug = info


class _Now:
    def __init__(self, t):
        self.t = t

    def seconds_nanoseconds(self):
        s = int(self.t)
        return s, int((self.t - s) * 1e9)


class _Clock:
    def __init__(self, env=None, clock_type=None):
        self.env = env

    def now(self):
        return _Now(self.env.now if self.env is not None else 0.0)


class _Timer:
    def __init__(self, period, callback):
        self.period = period
        self.callback = callback
        self.cancelled = False

    def cancel(self):
        self.cancelled = True


class Node:
    """Fake rclpy.node.Node.  `Node.sim_env` must be set (class attribute) before a node is
    constructed; timers are collected in `self.timers` and driven by the scenario."""

    sim_env = None

    def __init__(self, name, **kw):
        self.node_name = name
        self.env = Node.sim_env
        self.publishers_ = {}
        self.subscriptions_ = {}
        self.timers = []
        self._logger = _Logger(self)

    def create_publisher(self, typ, topic, qos):
        p = _Pub(self, typ, topic)
        self.publishers_[topic] = p
        return p

    def create_subscription(self, typ, topic, cb, qos):
        self.subscriptions_[topic] = cb
        return cb

    def create_timer(self, timer_period_sec=None, callback=None, clock=None, **kw):
        t = _Timer(timer_period_sec, callback)
        self.timers.append(t)
        return t

    def get_logger(self):
        return self._logger

    def get_clock(self):
        return _Clock(self.env)


class _TB:
    def __init__(self, node=None):
        self.count = 0

    def sendTransform(self, tf):
        self.count += 1


def _mod(name, **attrs):
    m = types.ModuleType(name)
    m.__dict__.update(attrs)
    sys.modules[name] = m
    return m


def install():
    if "rclpy" in sys.modules and getattr(sys.modules["rclpy"], "_dsim_fake", False):
        return

    class Parameter:
        class Type:
            BOOL = 1

        def __init__(self, *a, **k):
            pass

    class ClockType:
        SYSTEM_TIME = 1
        ROS_TIME = 2

    clock = _mod("rclpy.clock", Clock=lambda clock_type=None: _Clock(Node.sim_env, clock_type), ClockType=ClockType)
    node = _mod("rclpy.node", Node=Node)
    param = _mod("rclpy.parameter", Parameter=Parameter)
    _mod("rclpy", _dsim_fake=True, clock=clock, node=node, parameter=param, init=lambda args=None: None, spin=lambda n: None, shutdown=lambda: None)

    def msgmod(pkg, names, special=None):
        special = special or {}
        attrs = {}
        for n in names:
            attrs[n] = special.get(n) or type(n, (AutoMsg,), {})
        m = _mod(pkg + ".msg", **attrs)
        _mod(pkg, msg=m)

    msgmod("geometry_msgs", ["PoseWithCovarianceStamped", "TransformStamped", "PoseStamped", "TwistWithCovarianceStamped", "TwistStamped"])
    msgmod("synapse_msgs", ["BezierTrajectory"])
    msgmod("rosgraph_msgs", ["Clock"])
    msgmod("nav_msgs", ["Odometry", "Path"], {"Path": Path})
    msgmod("sensor_msgs", ["Joy", "Imu"], {"Joy": Joy})
    _mod("tf2_ros", TransformBroadcaster=_TB, StaticTransformBroadcaster=_TB)


_script = None


def load_script():
    """Load REPO/scripts/rdd2_sim.py (unmodified) as a module, once per process."""
    global _script
    if _script is None:
        install()
        path = os.path.join(REPO, "scripts", "rdd2_sim.py")
        spec = importlib.util.spec_from_file_location("rdd2_sim_under_test", path)
        mod = importlib.util.module_from_spec(spec)
        import contextlib
        import io

        with contextlib.redirect_stdout(io.StringIO()):
            spec.loader.exec_module(mod)
        _script = mod
    return _script
