"""C08 inside the real loop: the node of scripts/rdd2_sim.py with use_estimator = True feeds
its strapdown INS with the plant's accelerometer / gyro samples every tick, under tick
jitter / missed / long ticks.  A monitor on the INS function checks every call against the
exact flow (40-digit closed form) and runs a shadow replica that splits the same step at a
seeded point (dt1 + dt2, including dt1 = 0 and dt1 = 1e-9 dt).

Real code : scripts/rdd2_sim.py Simulator (update_estimator wiring, plant, controllers),
            models.rdd2 strapdown_ins_propagate
Stubs     : ROS fakes, timer
"""
import contextlib
import math

import numpy as np

from dsim.kernel import BudgetExceeded, Recorder, stream
from dsim.util import exception_origin
from flightsim import common
from flightsim.common import HOVER_OMEGA, make_node, vec
from flightsim.ins_bench import QNORM_TOL, STEP_TOL, exact_step, state_err, to_mp_state

NAME = "ins_flight"
PROPS = ("C08",)


def setup():
    common.setup()


def gen(seed, tier="quick"):
    ic = stream(seed, "topology")
    knobs = stream(seed, "knobs")
    flt = stream(seed, "faults")
    n = knobs.choice([200, 400]) if tier == "quick" else knobs.choice([400, 1000, 3000])
    x0 = [ic.uniform(-3, 3), ic.uniform(-3, 3), ic.uniform(10, 30)] + [ic.uniform(-1, 1) for _ in range(3)] + [1.0, 0.0, 0.0, 0.0] + \
         [ic.uniform(-1, 1) for _ in range(3)] + [HOVER_OMEGA] * 4
    ops = []
    k = 0
    while k < n:
        k += flt.randint(5, 60)
        if k >= n:
            break
        kind = flt.choice(["tick_missed", "tick_long", "tick_short", "sticks", "sticks"])
        op = {"k": k, "op": kind}
        if kind == "tick_long":
            op["dt"] = flt.choice([0.02, 0.03])
        elif kind == "tick_short":
            op["dt"] = flt.choice([0.002, 0.001])
        elif kind == "sticks":
            op["aetr"] = [flt.choice([-1.0, 0.0, 1.0, flt.uniform(-1, 1)]) for _ in range(4)]
        ops.append(op)
    return {"family": NAME, "seed": seed, "n_ticks": n, "dt": 0.01, "jitter": knobs.choice([0.0, 0.2, 0.5]), "x0": x0, "ops": ops,
            "sched_seed": seed, "budget": 100000}


def run(scn):
    import simpy

    rec = Recorder(keep=300)
    viol = []
    harness_error = None
    env, node, buf = make_node(scn, rec, scn.get("budget", 100000))
    probes = {"taylor_side": 0, "closed_form_side": 0, "ins_calls": 0, "split_checks": 0, "split_at_zero": 0, "ticks": 0, "plant_failed": 0}
    faults = {}
    worst = {"step_rel": 0.0, "split_rel": 0.0, "qnorm": 0.0}
    sched = stream(scn["sched_seed"], "schedule")
    real = node.eqs["strapdown_ins_propagate"]

    def violation(cls, site, msg, **at):
        if not any(v["cls"] == cls for v in viol):
            viol.append({"prop": "C08", "cls": cls, "site": site, "msg": msg, "at": at, "t": float(env.now), "gseq": rec.gseq})

    def mon_ins(args, out):
        x, a, w, g, dt = vec(args[0]), vec(args[1]), vec(args[2]), float(args[3]), float(args[4])
        x1 = vec(out[0])
        probes["ins_calls"] += 1
        rec.rec(env.now, "ins", None, x1=x1)
        if not (np.all(np.isfinite(x)) and np.all(np.isfinite(a)) and np.all(np.isfinite(w))):
            return
        th = float(np.linalg.norm(w)) * dt
        probes["taylor_side" if th * th < 1e-3 else "closed_form_side"] += 1
        if not np.all(np.isfinite(x1)):
            violation("ins_not_finite", "strapdown_ins_propagate", "non-finite INS state for finite inputs, dt=%r" % dt)
            return
        sc = 1.0 + float(np.linalg.norm(x[0:3])) + float(np.linalg.norm(x[3:6])) + (float(np.linalg.norm(a)) + g) * dt * dt
        ref = exact_step(to_mp_state(x), a, w, g, dt)
        pe, ve, qe = state_err(x1, ref)
        worst["step_rel"] = max(worst["step_rel"], max(pe, ve) / sc, qe)
        if max(pe, ve) > STEP_TOL * sc or qe > STEP_TOL:
            violation("ins_step_not_exact_flow", "strapdown_ins_propagate", "step dt=%r: position error %.3e, velocity error %.3e, quaternion error %.3e against the exact solution" % (dt, pe, ve, qe))
        # shadow replica: same step split at a seeded point
        fr = sched.choice([0.0, 1e-9, sched.random(), sched.random(), 0.5, 1.0])
        probes["split_checks"] += 1
        if fr == 0.0:
            probes["split_at_zero"] += 1
        xm = vec(real(x, a, w, g, fr * dt))
        x2 = vec(real(xm, a, w, g, dt - fr * dt))
        d = float(max(np.max(np.abs(x2[0:6] - x1[0:6])), min(np.max(np.abs(x2[6:] - x1[6:])), np.max(np.abs(x2[6:] + x1[6:])))))
        worst["split_rel"] = max(worst["split_rel"], d / sc)
        if d > 3 * STEP_TOL * sc:
            violation("ins_does_not_compose", "strapdown_ins_propagate", "propagating %r then %r differs from propagating %r by %.3e (scale %.3e)" % (fr * dt, dt - fr * dt, dt, d, sc))
        qn = abs(float(np.linalg.norm(x1[6:10])) - 1.0)
        worst["qnorm"] = max(worst["qnorm"], qn)
        if abs(float(np.linalg.norm(x[6:10])) - 1.0) <= QNORM_TOL and qn > QNORM_TOL:
            violation("quaternion_norm_drift", "strapdown_ins_propagate", "attitude quaternion norm deviates from 1 by %.3e after %d steps" % (qn, probes["ins_calls"]))

    common.wrap_eqs(node, {"strapdown_ins_propagate": mon_ins})
    ops_by_k = {}
    for op in scn["ops"]:
        ops_by_k.setdefault(int(op["k"]), []).append(op)

    try:
        with contextlib.redirect_stdout(buf):
            node.use_estimator = True
            node.est_x = np.array(list(scn["x0"][0:3]) + [0.0, 0.0, 0.0] + list(scn["x0"][6:10]), dtype=float)
            node.pw_sp = np.array(scn["x0"][0:3], dtype=float)
            timer = node.timers[0]

            def ticker():
                t = 0.0
                for k in range(1, scn["n_ticks"] + 1):
                    dt = scn["dt"] * (1 + scn["jitter"] * (2 * sched.random() - 1))
                    if scn["jitter"]:
                        faults["tick_jitter"] = faults.get("tick_jitter", 0) + 1
                    for op in ops_by_k.get(k, []):
                        faults[op["op"]] = faults.get(op["op"], 0) + 1
                        if op["op"] == "tick_missed":
                            dt += scn["dt"]
                        elif op["op"] in ("tick_long", "tick_short"):
                            dt = float(op["dt"])
                        elif op["op"] == "sticks":
                            node.joy_callback(common.joy(common.sticks_to_axes(op["aetr"])))
                    t += dt
                    yield env.at(t)
                    node.dt = dt
                    try:
                        timer.callback()
                    except RuntimeError as e:
                        if "integration" in str(e) or "cvode" in str(e).lower():
                            probes["plant_failed"] += 1
                            return
                        raise
                    probes["ticks"] += 1
                    if not np.all(np.isfinite(node.x)):
                        probes["plant_failed"] += 1
                        return

            simpy.Process(env, ticker())
            env.run()
    except BudgetExceeded as e:
        harness_error = "budget: %s" % e
    except Exception as e:
        import traceback

        where = exception_origin(e)
        if where == "harness":
            harness_error = "exception (%s): %s\n%s" % (where, e, traceback.format_exc()[-2500:])
        else:
            violation("exception_in_ins", "Simulator.update_estimator", "%s: %s" % (type(e).__name__, str(e)[:300]))

    return {
        "violations": viol, "harness_error": harness_error,
        "counters": {"ticks": probes["ticks"], "events": env.sim_steps},
        "faults": faults, "probes": probes, "metrics": worst,
        "sig": rec.signature() + "/%d/%s" % (scn["n_ticks"], scn["jitter"]), "digest": rec.digest(), "sim_s": float(env.now), "events": env.sim_steps,
        "nontrivial": bool(faults),
    }


def sample(scn):
    return {"family": NAME, "seed": scn["seed"], "n_ticks": scn["n_ticks"], "jitter": scn["jitter"], "x0": scn["x0"], "ops": scn["ops"][:6]}


LIST_KEYS = ("ops",)


def simplify(scn):
    out = []
    if scn["jitter"]:
        out.append(dict(scn, jitter=0.0))
    last = max([o["k"] for o in scn["ops"]] + [0])
    for n in (5, 20, 60, 150):
        if last < n < scn["n_ticks"]:
            out.append(dict(scn, n_ticks=n))
            break
    return out
