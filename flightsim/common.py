"""Shared plumbing of the flight scenarios: build the real `Simulator` node of
scripts/rdd2_sim.py under the ROS fakes on a SimEnv, drive its timer from a simpy
process, wrap its injected equation dict with monitors."""
import contextlib
import io
import math

import numpy as np

from dsim import bootstrap
from dsim.kernel import Recorder, SimEnv, stream

HOVER_OMEGA = math.sqrt(2.0 * 9.8 / (4 * 8.54858e-06))

STATE_NAMES = (["position_op_w_%d" % i for i in range(3)] + ["velocity_w_p_b_%d" % i for i in range(3)] +
               ["quaternion_wb_%d" % i for i in range(4)] + ["omega_wb_b_%d" % i for i in range(3)] +
               ["omega_motor_%d" % i for i in range(4)])


def setup():
    bootstrap()
    from flightsim import rosfake

    rosfake.load_script()


def make_node(scn, rec=None, budget=2000000):
    """Returns (env, node, out_buffer).  The node is the unmodified script's Simulator."""
    from flightsim import rosfake

    mod = rosfake.load_script()
    rec = rec or Recorder(keep=2000)
    env = SimEnv(scn.get("policy", "fifo"), stream(scn.get("sched_seed", scn["seed"]), "schedule"), budget, rec)
    rosfake.Node.sim_env = env
    np.random.seed(int(scn["seed"]) % (2 ** 32))
    buf = io.StringIO()
    x0 = None
    if scn.get("x0") is not None:
        x0 = {n: float(v) for n, v in zip(STATE_NAMES, scn["x0"])}
    with contextlib.redirect_stdout(buf):
        node = mod.Simulator(x0=x0)
    return env, node, buf


def wrap_eqs(node, monitors, subst=None):
    """Replace entries of the node's own `eqs` dict (an instance attribute it looks up by
    name at every call) by monitored wrappers.  `subst[name](args) -> args` may substitute
    arguments (knob randomisation) before the real function runs."""
    subst = subst or {}
    for name in list(node.eqs.keys()):
        f = node.eqs[name]
        mon = monitors.get(name)
        sub = subst.get(name)
        if mon is None and sub is None:
            continue

        def g(*args, _f=f, _mon=mon, _sub=sub, _name=name):
            if _sub is not None:
                args = _sub(args)
            out = _f(*args)
            if _mon is not None:
                _mon(args, out if isinstance(out, (tuple, list)) else (out,))
            return out

        node.eqs[name] = g


def vec(a):
    return np.array(a, dtype=float).reshape(-1)


def tilt_of(q):
    """Angle between the body z axis and the world z axis."""
    w, x, y, z = [float(v) for v in q]
    n = w * w + x * x + y * y + z * z
    zz = 1 - 2 * (x * x + y * y) / n
    return math.acos(max(-1.0, min(1.0, zz)))


def joy(axes=(0, 0, 0, 0, 0), buttons=()):
    from flightsim.rosfake import Joy

    a = [0.0] * 8
    for i, v in enumerate(axes):
        a[i] = float(v)
    b = [0] * 12
    for i in buttons:
        b[i] = 1
    return Joy(a, b)


def sticks_to_axes(aetr):
    """input_aetr = (-axes[3], axes[4], axes[1], axes[0])"""
    a, e, t, r = aetr
    ax = [0.0] * 8
    ax[3] = -a
    ax[4] = e
    ax[1] = t
    ax[0] = r
    return ax
