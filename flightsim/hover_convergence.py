"""C17: the unmodified closed-loop node of scripts/rdd2_sim.py (plant, cascade, gains,
allocation exactly as wired in the script) under an in-process fake of ROS, nominal 100 Hz
timer on the simulated clock, seeded initial conditions in the property's envelope, both
control modes.  Invariants every tick, bounded-liveness oracle at the end.

Real code : scripts/rdd2_sim.py Simulator (timer_callback, integrate_simulation,
            update_fake_estimator, update_controller, joy_callback), models.quadrotor,
            models.rdd2, models.rdd2_loglinear, CVODES integrator
Stubs     : rclpy, *_msgs, tf2_ros (fakes); the pilot (mode buttons, centred sticks)
"""
import contextlib
import io
import math

import numpy as np

from dsim import refmath as rm
from dsim.kernel import BudgetExceeded, Recorder, stream
from dsim.util import exception_origin
from flightsim import common
from flightsim.common import HOVER_OMEGA, make_node, tilt_of, vec

NAME = "hover_convergence"
PROPS = ("C17",)

# measured on the shipped tree (64 seeds): both cascades are within 2 mm / 1e-3 rad of the (leash-dragged)
# set-point from t = 15 s on, including runs that hit the ground first; limits below carry >= 10x margin
T_RUN = {"mellinger": 30.0, "loglinear": 30.0}
T_CONV = {"mellinger": 20.0, "loglinear": 25.0}
POS_TOL = 0.05
TILT_TOL = 0.02
RATE_TOL = 0.05
YAW_TOL = 0.05
SP_REST_TOL = 1e-3
FLYAWAY_TOL = 15.0  # m; how far the (leash-dragged) hover point may end from the commanded one; unchanged tree: <= 6.1 m


def setup():
    common.setup()


def gen(seed, tier="quick"):
    ic = stream(seed, "topology")
    knobs = stream(seed, "knobs")
    mode = ic.choice(["mellinger", "loglinear"])
    sp = [ic.uniform(-5, 5), ic.uniform(-5, 5), ic.uniform(4, 10)]
    d = np.array([ic.gauss(0, 1) for _ in range(3)])
    d = d / np.linalg.norm(d) * ic.uniform(0, 3.0)
    p0 = (np.array(sp) + d).tolist()
    p0[2] = max(p0[2], 4.0)
    tilt = ic.uniform(0, math.radians(60))
    ic2 = stream(seed, "topology2")
    if ic2.random() < 0.3:
        tilt = ic2.uniform(math.radians(45), math.radians(60))  # the far end of the envelope more often (round 7)
    az = ic.uniform(-math.pi, math.pi)
    yaw_err = ic.uniform(-2.6, 2.6)  # initial heading relative to the commanded heading, see note below
    # the commanded hover includes a heading (the script's yaw set-point, moved by the rudder stick)
    psi_sp = 0.0 if ic.random() < 0.25 else ic.uniform(-math.pi, math.pi)
    # Initial heading error is limited to 150 degrees: the property's envelope speaks of tilt, not of
    # heading, and within ~0.1 rad of a 180 degree heading error combined with a 55-60 degree tilt the
    # log-linear cascade tumbles for good (measured; the position cascade recovers from the same
    # states).  That corner is not a "moderate envelope"; it is reported in DESIGN.md, not judged.
    q = rm.quat_mul(rm.quat_exp([0, 0, psi_sp + yaw_err]), rm.quat_exp(tilt * np.array([math.cos(az), math.sin(az), 0])))
    if ic.random() < 0.5:
        q = -q  # either sign of the quaternion is the same attitude
    vb = [ic.uniform(-1.5, 1.5) for _ in range(3)]
    om = [ic.uniform(-1.5, 1.5) for _ in range(3)]
    rest = ic.random()
    if rest < 0.15:
        vb = [0.0, 0.0, 0.0]  # released exactly at rest (the simulator's own default)
    if rest < 0.08:
        om = [0.0, 0.0, 0.0]
    mot = [HOVER_OMEGA if ic.random() < 0.7 else 0.0] * 4
    if ic.random() < 0.18:
        # the simulator's own default situation: standing on the ground, rotors at rest, hover point a few
        # metres up and to the side (ground contact model and motor spin-up are in the loop from t = 0)
        sp = [sp[0], sp[1], ic.uniform(2.0, 5.0)]
        p0 = [sp[0] + ic.uniform(-1.5, 1.5), sp[1] + ic.uniform(-1.5, 1.5), 0.0]
        q = rm.quat_exp([0, 0, psi_sp + yaw_err])
        vb, om, mot = [0.0, 0.0, 0.0], [0.0, 0.0, 0.0], [0.0] * 4
    return {
        "family": NAME, "seed": seed, "mode": mode, "sp": sp, "psi_sp": psi_sp,
        "x0": p0 + vb + q.tolist() + om + mot,
        "tf": T_RUN[mode], "dt": 0.01,
        "budget": 100000,
    }


def run(scn):
    rec = Recorder(keep=500)
    viol = []
    harness_error = None
    env, node, buf = make_node(scn, rec, scn.get("budget", 100000))
    mode = scn["mode"]
    sp = np.array(scn["sp"], dtype=float)
    probes = {"ground_contact": 0, "leash_active": 0, "allocator_saturated": 0, "q0_negative_seen": 0, "ticks": 0}
    metrics = {}
    F_max, CT = 20.0, float(node.get_param_by_name("CT"))
    u_max = math.sqrt(F_max / CT)
    hist = []

    def violation(cls, site, msg, **at):
        if not any(v["cls"] == cls for v in viol):
            viol.append({"prop": "C17", "cls": cls, "site": site, "msg": msg, "at": at, "t": float(env.now), "gseq": rec.gseq})

    def mon_alloc(args, out):
        u = vec(out[0])
        if not np.all(np.isfinite(u)) or np.any(u < 0) or np.any(u > u_max * (1 + 1e-9)):
            violation("motor_command_out_of_limits", "f_alloc", "motor command %s outside [0, %.1f] rad/s" % (u.tolist(), u_max))
        if np.any(u >= u_max * (1 - 1e-9)) or np.any(u <= 0):
            probes["allocator_saturated"] += 1

    common.wrap_eqs(node, {"f_alloc": mon_alloc})

    try:
        with contextlib.redirect_stdout(buf):
            node.pw_sp = sp.copy()
            node.psi_sp = float(scn.get("psi_sp", 0.0))
            if mode == "loglinear":
                node.joy_callback(common.joy(buttons=[1, 4]))
            else:
                node.joy_callback(common.joy(buttons=[1, 5]))
            timer = node.timers[0]

            def ticker():
                k = 0
                while True:
                    k += 1
                    yield env.at(k * scn["dt"])
                    timer.callback()
                    probes["ticks"] += 1
                    x = node.x
                    if not np.all(np.isfinite(x)):
                        violation("state_not_finite", "Simulator.timer_callback", "non-finite vehicle state at t=%r" % env.now)
                        return
                    p, q, om = x[0:3], x[6:10], x[10:13]
                    psp = vec(node.pw_sp)
                    if p[2] < 0:
                        probes["ground_contact"] += 1
                    if q[0] < 0:
                        probes["q0_negative_seen"] += 1
                    hist.append((float(env.now), float(np.linalg.norm(p - psp)), tilt_of(q), float(np.linalg.norm(om)), psp.copy(),
                                 rm.angle_between_quats(q, vec(node.qc_sp)) if np.all(np.isfinite(vec(node.qc_sp))) else float("nan")))
                    rec.rec(env.now, "tick", None, x=x)

            import simpy

            simpy.Process(env, ticker())
            env.run(until=scn["tf"] + 1e-9)
    except BudgetExceeded as e:
        harness_error = "budget: %s" % e
    except Exception as e:
        import traceback

        where = exception_origin(e)
        if where in ("repo", "lib"):
            violation("exception_in_loop", "Simulator.timer_callback", "%s: %s" % (type(e).__name__, str(e)[:300]))
        else:
            harness_error = "exception (%s): %s\n%s" % (where, e, traceback.format_exc()[-2000:])

    if harness_error is None and hist and not viol and scn["tf"] >= T_CONV[mode] + 2.0:
        late = [h for h in hist if h[0] >= T_CONV[mode]]
        pe = max(h[1] for h in late)
        te = max(h[2] for h in late)
        we = max(h[3] for h in late)
        ye = max(h[5] for h in late)
        last2 = [h for h in hist if h[0] >= scn["tf"] - 2.0]
        spm = max(float(np.linalg.norm(h[4] - last2[0][4])) for h in last2)
        x0 = np.array(scn["x0"], dtype=float)
        d0 = float(np.linalg.norm(x0[0:3] - sp))
        sp_drag = float(np.linalg.norm(hist[-1][4] - sp))  # how far the leash carried the hover point away from the commanded one
        metrics = {"d0": d0, "tilt0": tilt_of(x0[6:10]), "sp_drag": sp_drag, "pos_err_late": pe, "tilt_late": te, "rate_late": we, "att_err_late": ye, "sp_motion_last2s": spm,
                   "sp_final_offset": float(np.linalg.norm(hist[-1][4] - sp))}
        if sp_drag > FLYAWAY_TOL:
            violation("hover_point_carried_away", "closed loop (%s)" % mode, "the hover point ended %.2f m from the commanded position (limit %.0f m): the vehicle was thrown away before it settled; initial tilt %.2f rad" % (sp_drag, FLYAWAY_TOL, tilt_of(x0[6:10])), mode=mode)
        if pe > POS_TOL:
            violation("position_not_converged", "closed loop (%s)" % mode, "position error %.4f m after t=%g s (limit %.2f m); yaw set-point %.3f rad" % (pe, T_CONV[mode], POS_TOL, scn.get("psi_sp", 0.0)), mode=mode)
        if te > TILT_TOL or ye > YAW_TOL:
            violation("attitude_not_settled", "closed loop (%s)" % mode, "tilt %.4f rad / attitude error to the yaw set-point %.4f rad after t=%g s (limits %.2f / %.2f)" % (te, ye, T_CONV[mode], TILT_TOL, YAW_TOL), mode=mode)
        if we > RATE_TOL:
            violation("rates_not_settled", "closed loop (%s)" % mode, "body rate %.4f rad/s after t=%g s (limit %.2f)" % (we, T_CONV[mode], RATE_TOL), mode=mode)
        if spm > SP_REST_TOL:
            violation("setpoint_not_at_rest", "input_velocity leash", "position set-point moved %.4f m during the last 2 s with centred sticks" % spm, mode=mode)
        if any(float(np.linalg.norm(h[4] - sp)) > 1e-9 for h in hist):
            probes["leash_active"] = 1

    return {
        "violations": viol, "harness_error": harness_error,
        "counters": {"ticks": probes["ticks"], "events": env.sim_steps},
        "faults": {"initial_condition_draw": 1},
        "probes": probes, "metrics": metrics,
        "sig": _cell(scn, probes),
        "digest": rec.digest(), "sim_s": float(scn["tf"]), "events": env.sim_steps, "nontrivial": True,
    }


def _cell(scn, probes):
    """Initial-condition cell: there is no interleaving in this scenario (one periodic timer),
    so distinctness is measured on the envelope instead."""
    x0 = np.array(scn["x0"])
    d = float(np.linalg.norm(x0[0:3] - np.array(scn["sp"])))
    return "%s/psi%d/d%d/tilt%d/v%d/w%d/mot%d/q%d/leash%d/gnd%d/sat%d" % (
        scn["mode"], int(round(scn.get("psi_sp", 0.0))), int(d), int(math.degrees(tilt_of(x0[6:10])) // 15), int(np.linalg.norm(x0[3:6])), int(np.linalg.norm(x0[10:13])),
        int(x0[13] > 0), int(x0[6] < 0), probes["leash_active"], int(probes["ground_contact"] > 0), int(probes["allocator_saturated"] > 0))


def sample(scn):
    return {k: scn.get(k) for k in ("family", "seed", "mode", "sp", "psi_sp", "x0", "tf")}


LIST_KEYS = ()


def simplify(scn):
    out = []
    psi = scn.get("psi_sp", 0.0)
    for cand in (0.0, round(psi, 1), 1.5 if psi > 0 else -1.5):
        if cand != psi and abs(cand) <= abs(psi):
            out.append(dict(scn, psi_sp=cand))
    x0 = list(scn["x0"])
    # towards: at the set-point, level, at rest, rotors at hover speed
    target = list(scn["sp"]) + [0, 0, 0] + [1, 0, 0, 0] + [0, 0, 0] + [HOVER_OMEGA] * 4
    near = [scn["sp"][0] + 0.5, scn["sp"][1], scn["sp"][2]]
    if x0[0:3] != near:
        out.append(dict(scn, x0=near + x0[3:]))
    for grp in ((3, 6), (6, 10), (10, 13), (13, 17), (0, 3)):
        if x0[grp[0]:grp[1]] != target[grp[0]:grp[1]]:
            y = list(x0)
            y[grp[0]:grp[1]] = target[grp[0]:grp[1]]
            out.append(dict(scn, x0=y))
    return out
