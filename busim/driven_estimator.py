"""C11 (step contracts) and C20 clause (e) (dt guard, correction rate limits): the real
AttitudeEstimator node on the real bus, driven by a stub sensor peer that injects
message / timestamp / value faults.  Every call the node makes into the injected
equation set is monitored.

Real code : uros.Core (SimCore), AttitudeEstimator, Logger, algorithms.eqs()['mrp']
Stubs     : the sensor peer (true attitude integrated in numpy, independent of cyecca)
"""
import contextlib
import io
import math

import numpy as np

from dsim import bootstrap
from dsim import refmath as rm
from dsim.kernel import BudgetExceeded, Recorder, make_simcore_class, stream
from dsim.util import exception_origin

NAME = "driven_estimator"
PROPS = ("C11", "C20")

G = 9.8
# C11 domain (from the property's quantifier)
DT_MIN, DT_MAX = 1e-3, 20e-3
OMEGA_MAX = 50.0
BIAS_MAX = 1.0
COND_MAX = 1e6
# 4th-order accuracy: |angle error| <= RK4_C * theta^5 + RK4_FLOOR (calibrated, see thresholds)
RK4_C = 0.015  # measured: err/theta^5 is flat at 1/720 = 1.39e-3 over theta in [1e-2, 1]; 10x margin
RK4_FLOOR = 1e-12
PSD_TOL = 1e-9
INIT_TOL = 1e-7
TIME_EPS = 1e-3


def setup():
    bootstrap()
    from cyecca.estimate.attitude import launch  # noqa


# ---------------------------------------------------------------------------
# generation: the scenario is an explicit, timed list of sensor messages
# ---------------------------------------------------------------------------
def _R_to_quat(R):
    """Shepperd's method (numpy, independent of cyecca)."""
    t = np.trace(R)
    c = [t, R[0, 0], R[1, 1], R[2, 2]]
    i = int(np.argmax(c))
    if i == 0:
        w = math.sqrt(1 + t) / 2
        q = [w, (R[2, 1] - R[1, 2]) / (4 * w), (R[0, 2] - R[2, 0]) / (4 * w), (R[1, 0] - R[0, 1]) / (4 * w)]
    elif i == 1:
        x = math.sqrt(1 + R[0, 0] - R[1, 1] - R[2, 2]) / 2
        q = [(R[2, 1] - R[1, 2]) / (4 * x), x, (R[0, 1] + R[1, 0]) / (4 * x), (R[0, 2] + R[2, 0]) / (4 * x)]
    elif i == 2:
        y = math.sqrt(1 - R[0, 0] + R[1, 1] - R[2, 2]) / 2
        q = [(R[0, 2] - R[2, 0]) / (4 * y), (R[0, 1] + R[1, 0]) / (4 * y), y, (R[1, 2] + R[2, 1]) / (4 * y)]
    else:
        z = math.sqrt(1 - R[0, 0] - R[1, 1] + R[2, 2]) / 2
        q = [(R[1, 0] - R[0, 1]) / (4 * z), (R[0, 2] + R[2, 0]) / (4 * z), (R[1, 2] + R[2, 1]) / (4 * z), z]
    return np.array(q)


def _rand_unit(r):
    v = np.array([r.gauss(0, 1) for _ in range(3)])
    return v / np.linalg.norm(v)


def gen(seed, tier="quick"):
    ic = stream(seed, "topology")
    work = stream(seed, "workload")
    flt = stream(seed, "faults")
    knobs = stream(seed, "knobs")

    tf = knobs.choice([2.0, 3.0, 5.0]) if tier == "quick" else knobs.choice([2.0, 5.0, 10.0])
    init_run = knobs.random() < 0.4  # short runs whose point is the initialisation step
    if init_run:
        tf = 0.1
    dt_imu = knobs.choice([1 / 1000, 1 / 500, 1 / 400, 1 / 250, 1 / 200, 1 / 100, 1 / 50])
    dt_mag = knobs.choice([dt_imu, 2 * dt_imu, 0.02, 0.05, 0.1])
    decl = ic.choice([0.0, ic.uniform(-math.pi, math.pi), ic.uniform(-0.5, 0.5)])
    incl = ic.uniform(-1.3, 1.3)
    mag_str = knobs.uniform(0.05, 0.65)
    g_cfg = knobs.choice([9.8, 9.8, 9.80665, 9.78, 9.81, knobs.uniform(9.3, 10.3)])  # configured gravity: peer and node agree on it
    B_n = rm.Rz(decl) @ rm.Ry(-incl) @ np.array([mag_str, 0, 0])
    bias = [ic.uniform(-0.1, 0.1) for _ in range(3)]

    # true attitude: piecewise-constant body rates
    ang = ic.uniform(0, math.pi)
    q = rm.quat_exp(ang * _rand_unit(ic))
    special = ic.random()
    if special < 0.10:
        # attitudes exactly half a turn from the reference (the MRP unit sphere): heading south, upside down, ...
        q = np.array(ic.choice([[0.0, 0, 0, 1], [0.0, 1, 0, 0], [0.0, 0, 1, 0]] + [[0.0] + _rand_unit(ic).tolist()]), dtype=float)
    elif special < 0.20:
        # level (pure heading): the measured specific force is exactly (anti)parallel to what a level estimate predicts
        q = rm.quat_exp([0, 0, ic.choice([0.0, 0.0, ic.uniform(-math.pi, math.pi)])])
    level_start = 0.10 <= special < 0.20
    # estimate started with its body z axis along the horizontal field (heading unobservable): decided here
    # so that the vehicle can be held still while the first heading corrections run in that geometry
    want_vertical = (not level_start) and ic.random() < 0.2
    if level_start:
        bias = [0.0, 0.0, bias[2]]  # no roll/pitch rate bias: estimate and truth stay exactly level
    segs = []
    t = 0.0
    while t < tf:
        dur = work.choice([0.05, 0.2, 0.5, 1.0])
        mag = work.choice([0.0, 0.1, 1.0, 3.0, 10.0, 10.0, 30.0])
        segs.append((t, (mag * _rand_unit(work)).tolist()))
        t += dur

    if level_start:
        segs[0] = (0.0, [0.0, 0.0, ic.choice([0.0, 0.5])])  # stays level while the first corrections run
    if want_vertical:
        segs[0] = (0.0, [0.0, 0.0, 0.0])

    def omega_at(tt):
        w = segs[0][1]
        for t0, ww in segs:
            if t0 <= tt:
                w = ww
            else:
                break
        return np.array(w)

    enabled = {k: flt.random() < 0.45 for k in (
        "msg_drop", "msg_dup", "msg_reorder", "msg_delay", "burst", "gap", "ts_jump_fwd", "ts_jump_back",
        "sensor_scale", "sensor_offset", "sensor_spike", "sensor_stuck", "sensor_zero_norm", "mag_vertical", "huge_rate")}
    if flt.random() < 0.2:
        enabled = {k: False for k in enabled}  # fault-free configuration
    rate = knobs.choice([0.005, 0.02, 0.05])

    msgs = []
    msgs_have_mag = [False]
    n_steps = int(round(tf / dt_imu))
    next_mag = 0.0
    ts_offset = 0.0
    prev_vals = {}
    k = 0
    gap_until = -1.0
    while k < n_steps:
        tk = k * dt_imu
        w = omega_at(tk)
        R = rm.quat_to_R(q)
        f = []
        if tk >= gap_until:
            gyro = w + np.array(bias)
            accel = R.T @ np.array([0, 0, -g_cfg])
            tag = None
            r = flt.random()
            if r < rate:
                kinds = [kk for kk in ("sensor_scale", "sensor_offset", "sensor_spike", "sensor_stuck", "sensor_zero_norm", "huge_rate",
                                       "msg_drop", "msg_dup", "msg_delay", "ts_jump_fwd", "ts_jump_back", "burst", "gap", "msg_reorder") if enabled[kk]]
                if kinds:
                    tag = flt.choice(kinds)
            ts = tk + ts_offset
            t_pub = tk
            m = {"kind": "imu", "t_pub": t_pub, "ts": ts, "gyro": gyro.tolist(), "accel": accel.tolist(), "fault": tag, "q_true": q.tolist()}
            if tag == "sensor_scale":
                if flt.random() < 0.5:
                    m["accel"] = (accel * flt.choice([0.0, 0.5, 0.85, 0.895, 0.9, 1.1, 1.105, 1.2, 3.0, 100.0])).tolist()
                else:
                    # magnitudes around the +-1 gate of the configured gravity and of the nominal 9.8
                    target = flt.choice([g_cfg - 1.02, g_cfg - 0.98, g_cfg + 0.98, g_cfg + 1.02, 8.78, 8.82, 10.78, 10.82, 9.8 - flt.uniform(0.5, 1.5), 9.8 + flt.uniform(0.5, 1.5)])
                    m["accel"] = (accel * (target / g_cfg)).tolist()
            elif tag == "sensor_offset":
                m["accel"] = (accel + flt.choice([0.5, 2.0, 20.0]) * _rand_unit(flt)).tolist()
            elif tag == "sensor_spike":
                m["accel"] = (accel + 1e3 * _rand_unit(flt)).tolist()
                m["gyro"] = (gyro + 40 * _rand_unit(flt)).tolist()
            elif tag == "sensor_stuck" and "imu" in prev_vals:
                m["gyro"], m["accel"] = prev_vals["imu"]
            elif tag == "sensor_zero_norm":
                m["accel"] = [0.0, 0.0, 0.0]
            elif tag == "huge_rate":
                m["gyro"] = (flt.choice([49.0, 60.0, 500.0]) * _rand_unit(flt)).tolist()
            elif tag == "msg_delay":
                m["t_pub"] = tk + flt.choice([0.3, 1.0, 3.0]) * dt_imu
            elif tag == "ts_jump_fwd":
                ts_offset += (0.5 if flt.random() < 0.05 else flt.choice([0.002, 0.01, 0.01, 0.015, 0.019]))
                m["ts"] = tk + ts_offset
            elif tag == "ts_jump_back":
                ts_offset -= flt.choice([dt_imu, 0.05, 1.0])
                m["ts"] = tk + ts_offset
            elif tag == "gap":
                gap_until = tk + flt.choice([0.008, 0.015, 0.015, 0.05, 0.3])
            if tag != "msg_drop":
                msgs.append(m)
                prev_vals["imu"] = (m["gyro"], m["accel"])
            if tag == "msg_dup":
                msgs.append(dict(m, t_pub=m["t_pub"] + flt.choice([0.0, 0.5 * dt_imu, 2 * dt_imu]), fault="msg_dup"))
            if tag == "burst":
                for j in range(1, flt.randint(2, 6)):
                    msgs.append(dict(m, ts=ts + j * 1e-4, t_pub=tk + j * 1e-6, fault="burst"))
            if tag == "msg_reorder" and len(msgs) >= 2:
                a, b = msgs[-1], msgs[-2]
                a["t_pub"], b["t_pub"] = b["t_pub"], a["t_pub"]
                a["fault"] = "msg_reorder"
            # magnetometer
            if tk >= next_mag - 1e-12:
                next_mag += dt_mag
                mag = R.T @ B_n
                mm = {"kind": "mag", "t_pub": tk, "ts": tk + ts_offset, "mag": mag.tolist(), "fault": None, "q_true": q.tolist()}
                r2 = flt.random()
                if init_run and not msgs_have_mag[0] and flt.random() < 0.5:
                    r2 = 0.0  # land a fault on the sample the node will initialise from
                    enabled_first = [kk for kk in ("mag_vertical", "sensor_zero_norm", "sensor_scale", "sensor_spike")]
                    for kk in enabled_first:
                        enabled[kk] = True
                msgs_have_mag[0] = True
                first_sample_fault = r2 == 0.0
                if r2 < rate * 2:
                    kinds = [kk for kk in ("mag_vertical", "sensor_zero_norm", "sensor_scale", "msg_drop", "msg_dup", "sensor_spike") if enabled[kk]]
                    if first_sample_fault:
                        kinds = ["mag_vertical", "mag_vertical", "sensor_zero_norm", "sensor_scale", "sensor_spike"]
                    if kinds:
                        mt = flt.choice(kinds)
                        mm["fault"] = mt
                        if mt == "mag_vertical":
                            mm["mag"] = (R.T @ np.array([0, 0, flt.choice([-1, 1]) * mag_str]) + flt.choice([0.0, 1e-9, 1e-4, 0.05]) * mag_str * _rand_unit(flt)).tolist()
                            if flt.random() < (0.6 if first_sample_fault else 0.3):
                                mm["mag"] = (flt.choice([-1, 1]) * flt.choice([1e-3, 0.05, 1.0]) * accel).tolist()  # exactly (anti)parallel to the accelerometer vector
                        elif mt == "sensor_zero_norm":
                            mm["mag"] = [0.0, 0.0, 0.0]
                        elif mt == "sensor_scale":
                            mm["mag"] = (mag * flt.choice([1e-6, 0.1, 10.0, 1e6])).tolist()
                        elif mt == "sensor_spike":
                            mm["mag"] = (mag + 50 * _rand_unit(flt)).tolist()
                if mm["fault"] != "msg_drop":
                    msgs.append(mm)
                if mm["fault"] == "msg_dup":
                    msgs.append(dict(mm, t_pub=tk + 0.5 * dt_imu))
        # advance the truth
        q = rm.quat_mul(q, rm.quat_exp(w * dt_imu))
        q = q / np.linalg.norm(q)
        k += 1
    for i, m in enumerate(msgs):
        m["i"] = i
    # at equal publication time the magnetometer sample goes first, so that the (mag, imu)
    # pair the node initialises from comes from one true attitude
    msgs.sort(key=lambda m: (m["t_pub"], 0 if m["kind"] == "mag" and m.get("fault") in (None, "mag_vertical", "sensor_zero_norm", "sensor_scale", "sensor_spike") else 1, m["i"]))
    for i, m in enumerate(msgs):
        m["i"] = i

    # parameter changes mid-run
    pops = []
    for _ in range(knobs.choice([0, 0, 1, 2, 4])):
        pops.append({"t": knobs.uniform(0, tf), "name": knobs.choice(["mrp/dt_min_accel", "mrp/dt_min_mag"]),
                     "value": knobs.choice([0.0, 0.001, 0.005, 0.02, 0.05, 0.2])})
    pops.sort(key=lambda o: o["t"])

    # initial estimator state: default, or an in-domain draw
    x_init = None
    W_init = None
    vertical_geometry = False
    if want_vertical or (ic.random() < 0.6 and not level_start):
        rr = math.tan(ic.uniform(0, math.pi) / 4) * _rand_unit(ic)
        if want_vertical:
            # body z axis (nearly) along the horizontal field direction: the geometry in which the
            # heading update is unobservable and must be refused ("too close to vertical")
            north = rm.Rz(decl) @ np.array([1.0, 0, 0])
            zb = north + ic.choice([0.0, 0.01, 0.05, 0.2]) * _rand_unit(ic)
            zb /= np.linalg.norm(zb)
            xb = np.cross(_rand_unit(ic), zb)
            xb /= np.linalg.norm(xb)
            Rb = np.column_stack([xb, np.cross(zb, xb), zb])
            rr = rm.quat_to_mrp(_R_to_quat(Rb))
            vertical_geometry = True
        x_init = rr.tolist() + [ic.uniform(-0.2, 0.2) for _ in range(3)]
        L = np.zeros((6, 6))
        for i in range(6):
            L[i, i] = (10 ** ic.uniform(-2.5, 0)) if i < 3 else (10 ** ic.uniform(-3.5, -1))
            for j in range(i):
                L[i, j] = ic.uniform(-0.3, 0.3) * min(L[i, i], L[j, j])
        if vertical_geometry and ic.random() < 0.5:
            # both refusal conditions of the heading update at once: near-vertical geometry and a large tilt uncertainty
            L[0, 0] = ic.uniform(0.1, 0.6)
            L[1, 1] = ic.uniform(0.1, 0.6)
        W_init = L.tolist()

    return {
        "family": NAME,
        "seed": seed,
        "policy": knobs.choice(["fifo", "lifo", "random"]),
        "sched_seed": seed,
        "tf": tf,
        "initialize": True if init_run else ic.random() < 0.5,
        "decl": decl, "incl": incl, "mag_str": mag_str,
        "params": {"mrp/mag_decl": decl, "mrp/g": g_cfg,
                   "mrp/dt_min_accel": knobs.choice([0.0, 1 / 200, 0.01, 0.02, 0.05]),
                   "mrp/dt_min_mag": knobs.choice([0.0, 1 / 200, 0.02, 0.05, 0.1]),
                   "logger/dt": knobs.choice([1 / 200, 1 / 50, 1 / 10])},
        "x_init": x_init,
        "W_init": W_init,
        "msgs": msgs,
        "pops": pops,
        "budget": 1000000,
    }


# ---------------------------------------------------------------------------
# execution
# ---------------------------------------------------------------------------
def _np(a):
    return np.array(a, dtype=float)


def run(scn):
    bootstrap()
    import casadi as ca
    import simpy
    from cyecca.estimate.attitude import estimator, launch
    from cyecca.estimate.attitude.estimator import AttitudeEstimator
    from cyecca.sim import msgs as M
    from cyecca.sim import uros
    from busim.packaged_loop import _FakeTime

    SimCore = make_simcore_class()
    rec = Recorder(keep=2000)
    core = SimCore()
    core.sim_init(scn["policy"], stream(scn["sched_seed"], "schedule"), scn.get("budget", 1000000), rec)

    viol = []
    faults = {}
    probes = {"shadow_switch_taken": 0, "accel_rejected_magnitude": 0, "mag_rejected_vertical": 0, "mag_rejected_tilt_uncertainty": 0,
              "dt_nonpositive_seen": 0, "check_nan_raised": 0, "init_judged": 0, "init_refused": 0, "predict_judged": 0,
              "correct_accepted": 0, "correct_rejected": 0, "out_of_domain_calls": 0, "corrections_spacing_checked": 0,
              "gross_accel_in_domain": 0, "state_poisoned_out_of_domain": 0, "init_consistency_judged": 0, "predict_changed_bias": 0, "corrected_factor_not_lower_triangular": 0, "exception_in_node": 0}
    ctx = {"ts": None, "kind": None, "fault": None, "q_true": None}
    model_params = {"mrp/dt_min_accel": 1.0 / 200, "mrp/dt_min_mag": 1.0 / 200, "mrp/mag_decl": 0.0}
    last_corr = {"accel": None, "mag": None}
    worst = {"rk4_ratio": 0.0, "psd": 0.0, "init_err": 0.0}

    def violation(prop, cls, site, msg, **at):
        if len(viol) < 20 and not any(v["cls"] == cls and v["prop"] == prop for v in viol):
            viol.append({"prop": prop, "cls": cls, "site": site, "msg": msg, "at": at, "t": float(core.now), "gseq": rec.gseq})

    def in_domain_state(x, W):
        if not (np.all(np.isfinite(x)) and np.all(np.isfinite(W))):
            return False
        if np.linalg.norm(x[:3]) > 1 + 1e-9 or np.max(np.abs(x[3:])) > BIAS_MAX:
            return False
        if np.any(np.triu(W, 1) != 0) or np.any(np.diag(W) == 0):
            return False
        try:
            c = np.linalg.cond(W)
        except Exception:
            return False
        return bool(np.isfinite(c) and c <= COND_MAX)

    real = launch.eqs["mrp"]

    # pairs (accel, mag) -> truth for judging initialisation
    def mon_initialize(args, out):
        g_b, B_b, decl = _np(args[0]).reshape(-1), _np(args[1]).reshape(-1), float(args[2])
        x0, code = _np(out[0]).reshape(-1), float(out[1])
        rec.rec(core.now, "call", "initialize", code=code, x0=x0)
        if not np.all(np.isfinite(x0)) or not np.isfinite(code):
            violation("C11", "init_nan", "eqs['mrp'].initialize", "initialize returned a non-finite value: x0=%s code=%r for g_b=%s B_b=%s decl=%r" % (x0.tolist(), code, g_b.tolist(), B_b.tolist(), decl))
            return
        if code != 0:
            probes["init_refused"] += 1
            return
        # accepted: the returned attitude must be the one that produced these two vectors, whatever
        # they are - it takes the measured specific force to "up" and the measured field into the
        # vertical plane through magnetic north (declination east of true north)
        ng, nB = float(np.linalg.norm(g_b)), float(np.linalg.norm(B_b))
        if ng > 0 and nB > 0:
            probes["init_consistency_judged"] += 1
            R_est = rm.quat_to_R(rm.mrp_to_quat(x0[:3]))
            down_err = float(np.linalg.norm(R_est @ (-g_b / ng) - np.array([0.0, 0.0, 1.0])))
            Bw = rm.Rz(-decl) @ (R_est @ (B_b / nB))
            horiz = math.hypot(Bw[0], Bw[1])
            head_err = abs(Bw[1]) if Bw[0] > 0 else horiz
            worst["init_err"] = max(worst["init_err"], down_err, head_err)
            # heading is conditioned by the horizontal field component (>= sin 10 deg by the gate)
            if not (down_err <= INIT_TOL and head_err <= INIT_TOL):
                violation("C11", "init_wrong_attitude", "eqs['mrp'].initialize",
                          "initialize returned code 0 but its attitude maps the measured gravity %.3e away from vertical and the measured field %.3e out of the magnetic-north plane (decl=%r; g_b=%s, B_b=%s)" % (
                              down_err, head_err, decl, g_b.tolist(), B_b.tolist()), decl_zero=bool(decl == 0.0))
        # judged only when both vectors were produced by the same true attitude, unfaulted
        pair = ctx.get("init_pair")
        if pair is None:
            return
        (a_bytes, m_bytes, q_true) = pair
        if g_b.tobytes() != a_bytes or B_b.tobytes() != m_bytes or decl != scn["decl"]:
            return
        probes["init_judged"] += 1
        R_est = rm.quat_to_R(rm.mrp_to_quat(x0[:3]))
        err = rm.rot_angle(R_est.T @ rm.quat_to_R(q_true))
        worst["init_err"] = max(worst["init_err"], err)
        if not (err <= INIT_TOL):
            violation("C11", "init_wrong_attitude", "eqs['mrp'].initialize",
                      "initialize returned code 0 and an attitude %.3e rad away from the attitude that produced the measurements (decl=%r, incl=%r)" % (err, decl, scn["incl"]),
                      decl_zero=bool(decl == 0.0))

    def mon_predict(args, out):
        t, x, W, om, std_gyro, sn, dt = args
        x, W, om, dt = _np(x).reshape(-1), _np(W), _np(om).reshape(-1), float(dt)
        x1, W1 = _np(out[0]).reshape(-1), _np(out[1])
        rec.rec(core.now, "call", "predict", dt=dt, x1=x1)
        if not (dt > 0):
            probes["dt_nonpositive_seen"] += 1
            violation("C20", "predict_nonpositive_dt", "AttitudeEstimator.imu_callback", "predict was called with dt=%r (message timestamp %r)" % (dt, ctx["ts"]))
        if not (DT_MIN - 1e-12 <= dt <= DT_MAX + 1e-12 and np.linalg.norm(om) <= OMEGA_MAX and in_domain_state(x, W)):
            probes["out_of_domain_calls"] += 1
            return
        probes["predict_judged"] += 1
        n1 = float(np.linalg.norm(x1[:3]))
        if not np.all(np.isfinite(x1)) or not (n1 <= 1 + 1e-12):
            violation("C11", "predict_mrp_norm", "eqs['mrp'].predict", "prediction returned an MRP of norm %r (> 1) for dt=%r |omega|=%r" % (n1, dt, float(np.linalg.norm(om))))
        if not np.all(np.isfinite(W1)) or np.any(np.triu(W1, 1) != 0) or np.any(np.diag(W1) == 0):
            violation("C11", "predict_cov_factor", "eqs['mrp'].predict", "prediction returned a covariance factor that is not finite lower-triangular with non-zero diagonal")
        # shadow switch probe: the un-switched RK4 result would have left the ball
        th = float(np.linalg.norm(om - x[3:6]) * dt)
        R_ref = rm.quat_to_R(rm.mrp_to_quat(x[:3])) @ rm.rot_exp((om - x[3:6]) * dt)
        if np.all(np.isfinite(x1)):
            err = rm.rot_angle(rm.quat_to_R(rm.mrp_to_quat(x1[:3])).T @ R_ref)
            bound = RK4_C * th ** 5 + RK4_FLOOR
            if th > 0:
                worst["rk4_ratio"] = max(worst["rk4_ratio"], err / th ** 5 if err > 10 * RK4_FLOOR else 0.0)
            if not (err <= bound):
                violation("C11", "predict_attitude_accuracy", "eqs['mrp'].predict",
                          "predicted attitude is %.3e rad from the exact gyro-integrated attitude for step angle theta=%.3e (bound %.3e = %g*theta^5 + %g)" % (err, th, bound, RK4_C, RK4_FLOOR))
            if np.linalg.norm(x[:3]) > 0.9 and float(np.dot(x1[:3], x[:3])) < 0:
                probes["shadow_switch_taken"] += 1
        if not np.allclose(x1[3:6], x[3:6], rtol=0, atol=0):
            probes["predict_changed_bias"] += 1  # not a stated clause

    def mon_correct(which):
        def mon(args, out):
            x, W = _np(args[0]).reshape(-1), _np(args[1])
            y = _np(args[2]).reshape(-1)
            x1, W1 = _np(out[0]).reshape(-1), _np(out[1])
            code = float(out[5])
            rec.rec(core.now, "call", "correct_" + which, code=code, x1=x1)
            # C20(e): spacing of consecutive corrections in message time
            ts = ctx["ts"]
            dmin = model_params["mrp/dt_min_" + which]
            if last_corr[which] is not None:
                probes["corrections_spacing_checked"] += 1
                if not (ts - last_corr[which] >= dmin - TIME_EPS - 1e-12):
                    violation("C20", "correction_too_often", "AttitudeEstimator.%s_callback" % ("imu" if which == "accel" else "mag"),
                              "%s corrections at message times %r and %r: %.6f s apart, configured minimum period %r (tolerance 1 ms)" % (which, last_corr[which], ts, ts - last_corr[which], dmin), which=which)
            last_corr[which] = ts
            if not in_domain_state(x, W):
                probes["out_of_domain_calls"] += 1
                return
            if code != 0:
                probes["correct_rejected"] += 1
                if which == "accel":
                    probes["accel_rejected_magnitude"] += 1
                elif code == 1:
                    probes["mag_rejected_vertical"] += 1
                else:
                    probes["mag_rejected_tilt_uncertainty"] += 1
                if x1.tobytes() != x.tobytes() or W1.tobytes() != W.tobytes():
                    violation("C11", "rejected_correction_changed_state", "eqs['mrp'].correct_%s" % which,
                              "correct_%s returned error code %d but the state/covariance changed (max |dx|=%r, max |dW|=%r; y=%s)" % (
                                  which, int(code), float(np.nanmax(np.abs(x1 - x))) if np.any(np.isfinite(x1 - x)) else float("nan"),
                                  float(np.nanmax(np.abs(W1 - W))) if np.any(np.isfinite(W1 - W)) else float("nan"), y.tolist()), which=which)
            else:
                probes["correct_accepted"] += 1
                if not (np.all(np.isfinite(x1)) and np.all(np.isfinite(W1))):
                    violation("C11", "accepted_correction_nonfinite", "eqs['mrp'].correct_%s" % which,
                              "correct_%s accepted (code 0) but returned a non-finite state or covariance for y=%s" % (which, y.tolist()), which=which)
                else:
                    P0, P1 = W @ W.T, W1 @ W1.T
                    lam = float(np.min(np.linalg.eigvalsh(P0 - P1)))
                    sc = float(np.linalg.norm(P0, 2))
                    worst["psd"] = max(worst["psd"], -lam / sc)
                    if not (lam >= -PSD_TOL * sc):
                        violation("C11", "covariance_increased", "eqs['mrp'].correct_%s" % which,
                                  "accepted correct_%s increased the covariance: lambda_min(P - P+) = %.3e, ||P|| = %.3e" % (which, lam, sc), which=which)
                    if np.any(np.triu(W1, 1) != 0):
                        probes["corrected_factor_not_lower_triangular"] += 1  # stated for prediction only
                if which == "accel":
                    gpar = float(args[3])
                    ny = float(np.linalg.norm(y))
                    # "grossly wrong": the shipped gate is g +- 1; only magnitudes clearly beyond it (1.5) are demanded
                    if np.isfinite(ny) and abs(ny - gpar) > 1.5:
                        probes["gross_accel_in_domain"] += 1
                        violation("C11", "gross_accel_accepted", "eqs['mrp'].correct_accel",
                                  "an accelerometer vector of norm %r (g=%r) was accepted (code 0)" % (ny, gpar))
            if which == "accel" and code != 0:
                probes["gross_accel_in_domain"] += 1
        return mon

    monitors = {"initialize": mon_initialize, "predict": mon_predict, "correct_accel": mon_correct("accel"), "correct_mag": mon_correct("mag")}

    def wrap(name, f):
        mon = monitors.get(name)
        if mon is None:
            return f

        def g(*args):
            out = f(*args)
            mon(args, out if isinstance(out, (tuple, list)) else (out,))
            return out
        return g

    eqs = {k: wrap(k, f) for k, f in real.items()}

    saved_time = estimator.time
    estimator.time = _FakeTime()
    harness_error = None
    buf = io.StringIO()
    try:
        with contextlib.redirect_stdout(buf):
            pub_imu = uros.Publisher(core, "imu", M.Imu)
            pub_mag = uros.Publisher(core, "mag", M.Mag)
            node = AttitudeEstimator(core, "mrp", eqs, bool(scn["initialize"]))
            logger = uros.Logger(core)
            core.init_params()
            for k, v in scn["params"].items():
                core.set_param(k, v)
                if k in model_params:
                    model_params[k] = v
            if scn.get("x_init") is not None:
                node.x = ca.DM(scn["x_init"])
                node.W = ca.DM(ca.Sparsity.lower(6), [scn["W_init"][i][j] for j in range(6) for i in range(j, 6)])

            msg_imu, msg_mag = M.Imu(), M.Mag()
            last_sent = {"imu": None, "mag": None}

            def fault(k):
                faults[k] = faults.get(k, 0) + 1

            def deliver(m):
                ctx["ts"], ctx["kind"], ctx["fault"], ctx["q_true"] = float(m["ts"]), m["kind"], m.get("fault"), m.get("q_true")
                if m.get("fault"):
                    fault(m["fault"])
                if m["kind"] == "imu":
                    msg_imu.data["time"] = m["ts"]
                    msg_imu.data["gyro"] = m["gyro"]
                    msg_imu.data["accel"] = m["accel"]
                    # a consistent (mag, imu) pair from one attitude?
                    lm = last_sent["mag"]
                    ctx["init_pair"] = None
                    if lm is not None and not m.get("fault") and not lm.get("fault") and lm.get("q_true") == m.get("q_true"):
                        ctx["init_pair"] = (np.array(m["accel"], dtype=float).tobytes(), np.array(lm["mag"], dtype=float).tobytes(), np.array(m["q_true"]))
                    last_sent["imu"] = m
                    was_init = node.initialized
                    n_acc = probes["correct_accepted"] + probes["correct_rejected"]
                    rec.rec(core.now, "send", "imu", ts=float(m["ts"]))
                    pub_imu.publish(msg_imu)
                else:
                    msg_mag.data["time"] = m["ts"]
                    msg_mag.data["mag"] = m["mag"]
                    last_sent["mag"] = m
                    rec.rec(core.now, "send", "mag", ts=float(m["ts"]))
                    pub_mag.publish(msg_mag)

            def peer():
                for m in scn["msgs"]:
                    if m["t_pub"] >= scn["tf"]:
                        break
                    if m["t_pub"] > core.now:
                        yield core.at(m["t_pub"])
                    try:
                        deliver(m)
                    except ValueError as e:
                        # the node's own check_nan (auxiliary outputs) - C11 says nothing about those
                        if "nan in" in str(e):
                            probes["check_nan_raised"] += 1
                            rec.rec(core.now, "check_nan", None)
                            if not (np.all(np.isfinite(_np(node.x))) and np.all(np.isfinite(_np(node.W)))):
                                # the node's state is non-finite (only reachable through an out-of-domain
                                # step, e.g. dt of seconds after a timestamp jump): nothing in-domain can
                                # follow, end the run here
                                probes["state_poisoned_out_of_domain"] += 1
                                return
                        else:
                            raise

            def param_proc():
                for op in scn["pops"]:
                    if op["t"] >= scn["tf"]:
                        break
                    if op["t"] > core.now:
                        yield core.at(op["t"])
                    fault("param_update_midrun")
                    rec.rec(core.now, "set_param", op["name"], v=float(op["value"]))
                    core.set_param(op["name"], op["value"])
                    model_params[op["name"]] = op["value"]

            simpy.Process(core, peer())
            simpy.Process(core, param_proc())
            core.run(until=scn["tf"])
    except BudgetExceeded as e:
        harness_error = "budget: %s" % e
    except Exception as e:
        import traceback

        where = exception_origin(e)
        if where == "repo":
            # an exception is not one of C11's clauses (C12 owns "no exception" for the packaged loop); the
            # run ends here and the event is counted
            probes["exception_in_node"] += 1
            rec.rec(core.now, "exception", type(e).__name__)
        else:
            harness_error = "exception (%s): %s\n%s" % (where, e, traceback.format_exc()[-2000:])
    finally:
        estimator.time = saved_time

    faults["tie_order"] = core.sim_ties_nonfifo
    nontrivial = any(k not in ("tie_order",) and v > 0 for k, v in faults.items()) or core.sim_ties_nonfifo > 0
    return {
        "violations": viol,
        "harness_error": harness_error,
        "counters": {"messages": len(scn["msgs"]), "events": core.sim_steps, "ties": core.sim_ties},
        "faults": {k: v for k, v in faults.items() if v},
        "probes": probes,
        "metrics": worst,
        "sig": rec.signature(),
        "digest": rec.digest(),
        "sim_s": float(scn["tf"]),
        "events": core.sim_steps,
        "nontrivial": bool(nontrivial),
        "progress": (probes["predict_judged"] + probes["out_of_domain_calls"] + probes["init_refused"] + probes["init_consistency_judged"] + 1.0) / (1.0 + 0.25 * len([m for m in scn["msgs"] if m["kind"] == "imu" and m["t_pub"] < scn["tf"]])),
    }


def sample(scn):
    return {"family": NAME, "seed": scn["seed"], "policy": scn["policy"], "tf": scn["tf"], "initialize": scn["initialize"],
            "decl": scn["decl"], "incl": scn["incl"], "params": scn["params"], "n_msgs": len(scn["msgs"]),
            "first_msgs": [{k: m[k] for k in m if k != "q_true"} for m in scn["msgs"][:3]],
            "faulted_msgs": [{k: m[k] for k in ("kind", "t_pub", "ts", "fault")} for m in scn["msgs"] if m.get("fault")][:6],
            "pops": scn["pops"], "x_init": scn["x_init"]}


LIST_KEYS = ("msgs", "pops")


def simplify(scn):
    out = []
    if scn["policy"] != "fifo":
        out.append(dict(scn, policy="fifo"))
    if scn.get("x_init") is not None:
        out.append(dict(scn, x_init=None, W_init=None))
    if scn["msgs"]:
        tmax = max(m["t_pub"] for m in scn["msgs"])
        for tf in (0.1, 0.5, 1.0, 2.0):
            if tmax < tf < scn["tf"]:
                out.append(dict(scn, tf=tf))
                break
    return out
