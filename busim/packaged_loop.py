"""C12: the packaged attitude loop (launch.launch_sim -> Simulator, AttitudeEstimator,
Logger, Core) run unmodified on the simulation kernel, noise off, with seeded initial
states, field geometry, rates and tie-break schedules.

Real code : everything (launch_sim, Simulator, AttitudeEstimator('mrp'), Logger, Core
            as SimCore, eqs['sim'], eqs['mrp'])
Stubs     : none (spy subscribers are added just before the Logger is constructed)
Seams     : uros.Core -> SimCore, uros.Logger -> spy-installing factory,
            simulator.np.random.seed() -> seeded, estimator.time.thread_time -> counter
"""
import contextlib
import io
import math

import numpy as np

from dsim import bootstrap
from dsim import refmath as rm
from dsim.kernel import BudgetExceeded, Recorder, make_simcore_class, stream
from dsim.util import exception_origin

NAME = "packaged_loop"
PROPS = ("C12",)

# thresholds (calibrated on the repaired tree, see thresholds.json / DESIGN.md)
T_TRANSIENT = 20.0  # s
ATT_ERR_MAX = 0.05  # rad, for all t >= T_TRANSIENT
BIAS_ERR_MAX = 0.02  # rad/s per component at the end
MEAS_REL_TOL = 1e-9


class _Abort(Exception):
    """Raised by an invariant monitor to end a run at its first violation."""


def setup():
    bootstrap()
    from cyecca.estimate.attitude import launch  # noqa  (derives eqs once, before fork)


def gen(seed, tier="quick"):
    ic = stream(seed, "topology")
    knobs = stream(seed, "knobs")
    # true attitude: uniform rotation angle in [0, pi] about a uniform axis -> MRP in the unit ball
    ax = np.array([ic.gauss(0, 1) for _ in range(3)])
    ax /= np.linalg.norm(ax)
    ang = ic.uniform(0, math.pi)
    initialize = ic.random() < 0.5
    if not initialize:
        # started at zero, the estimator is `ang` away from the truth; within a few degrees of 180 the
        # error decays slowly (0.032 rad left at t = 20 s from 175 degrees, the worst of 4300 runs), so
        # the zero-start case is drawn from a box of 160 degrees
        ang = min(ang, 2.8)
    r0 = (math.tan(ang / 4) * ax).tolist()
    b0 = [ic.uniform(-0.1, 0.1) for _ in range(3)]
    dt_sim = knobs.choice([1 / 1000, 1 / 800, 1 / 500, 1 / 400, 1 / 400, 1 / 250, 1 / 200])
    # supported IMU rates: >= 200 Hz (the shipped default and the rate the repository's own
    # test uses).  With the simulator's 10 rad/s time-varying rates a zero-order-hold gyro
    # sample at 50-100 Hz leaves an attitude error of 0.04-0.09 rad that is sampling error,
    # not an estimator defect (measured: error scales with dt_imu), so slower settings are
    # outside what "a few hundredths of a radian" can be demanded of.
    dt_imu = knobs.choice([1, 1, 2, 2, 4]) * dt_sim
    while dt_imu > 0.005 + 1e-12:
        dt_imu -= dt_sim
    if knobs.random() < 0.12:
        dt_imu = knobs.choice([0.25, 0.5]) * dt_sim  # a sensor period below the simulation step: published every step
    corner = knobs.random()
    if corner < 0.08:
        dt_sim = dt_imu = 1 / 1000  # the fastest supported IMU: every sample 1 ms apart (the node's own tolerance is 1 ms)
    dt_mag = knobs.choice([dt_imu, 2 * dt_imu, 0.02, 0.05, 0.1, knobs.uniform(dt_imu, 0.1), 0.4 * dt_sim])
    decl = knobs.uniform(-0.5, 0.5)
    # supported field geometry: |inclination| <= 1.0 rad.  The heading update projects the field onto the
    # horizontal plane, so a roll/pitch error leaks into the heading residual amplified by tan(inclination);
    # measured on the repaired tree: up to |incl| = 1.1 rad the loop converges for every tested rate setting
    # (worst 0.027 rad), at 1.2 rad it needs the default correction rates, beyond 1.3 rad it diverges for some
    # initial states even with them.  The code defines no supported range; 1.0 rad leaves a margin.
    # A 90-minute soak then found one more divergence in ~1400 runs: inclination -0.98 rad with heading
    # corrections at 1 kHz (dt_min_mag = 0) against tilt corrections at 100 Hz.  The heading update trusts the
    # roll/pitch estimate, so it must not outnumber the tilt update ten to one at a steep field; the supported
    # domain therefore keeps the accelerometer corrected at least as often as the magnetometer (shipped: both
    # 200 Hz) and |inclination| <= 0.9 rad.
    incl = knobs.uniform(-0.9, 0.9)
    weak_steep = 0.08 <= corner < 0.16  # weak field at a steep angle: the smallest horizontal component in the domain
    if weak_steep:
        incl = knobs.choice([-1, 1]) * knobs.uniform(0.6, 0.9)
    tf = 30.0 if tier == "quick" else knobs.choice([30.0, 40.0])
    dmm = knobs.choice([1 / 200, 1 / 200, 0.01, 0.02, knobs.uniform(0.005, 0.05)])
    dma = min(dmm, knobs.choice([0.0, 1 / 200, 1 / 200, 0.01]))
    # configured gravity: the same value for the simulator and the estimator; the initialiser's validity
    # gate is hard-wired to 9.8 +- 1, so the supported range stays well inside it
    g_cfg = knobs.choice([9.8, 9.8, 9.80665, knobs.uniform(9.3, 10.3)])
    return {
        "family": NAME,
        "seed": seed,
        "policy": knobs.choice(["fifo", "lifo", "random"]),
        "sched_seed": seed,
        "x0": r0 + b0,
        "initialize": initialize,
        "params": {
            "sim/dt_sim": dt_sim,
            "sim/dt_imu": dt_imu,
            "sim/dt_mag": dt_mag,
            "sim/mag_incl": incl,
            "sim/mag_decl": decl,
            "mrp/mag_decl": decl,
            "sim/mag_str": knobs.uniform(0.05, 0.07) if weak_steep else knobs.choice([0.1, knobs.uniform(0.05, 0.15), knobs.uniform(0.05, 0.65)]),  # shipped 0.1; weak fields matter for gates in field units
            "sim/g": g_cfg,
            "mrp/g": g_cfg,
            "sim/enable_noise": False,
            "logger/dt": knobs.choice([1 / 400, 1 / 200, 1 / 100, 1 / 50, 1 / 20, knobs.uniform(1 / 400, 1 / 20)]),
            # correction rate limits: shipped 5 ms each; the accelerometer is never throttled harder than
            # the magnetometer (see the note on the supported domain above)
            "mrp/dt_min_accel": dma,
            "mrp/dt_min_mag": dmm,
        },
        "tf": tf,
        "budget": 3000000,
    }


class _NpProxy:
    """numpy, except that random.seed() without argument re-seeds from the run seed."""

    class _R:
        def __init__(self, seed):
            self._seed = seed

        def seed(self, *a):
            np.random.seed(self._seed % (2 ** 32) if not a else a[0])

        def __getattr__(self, k):
            return getattr(np.random, k)

    def __init__(self, seed):
        self.random = _NpProxy._R(seed)

    def __getattr__(self, k):
        return getattr(np, k)


class _FakeTime:
    def __init__(self):
        self.n = 0

    def thread_time(self):
        self.n += 1
        return self.n * 1e-6

    def __getattr__(self, k):
        import time as _t

        return getattr(_t, k)


def run(scn):
    bootstrap()
    from cyecca.estimate.attitude import estimator, launch, simulator
    from cyecca.sim import msgs, uros

    SimCore = make_simcore_class()
    rec = Recorder(keep=5000)
    viol = []
    state = {"core": None, "q_true": None, "t_true": None, "n_imu": 0, "n_mag": 0, "n_att": 0, "n_est": 0,
             "mag_rot_checked": 0, "worst_accel_norm": 0.0, "worst_mag_norm": 0.0, "worst_rot": 0.0, "codes": {}}
    P = scn["params"]
    g = float(P.get("sim/g", 9.8))
    mag_str = P["sim/mag_str"]
    B_n = rm.Rz(P["sim/mag_decl"]) @ rm.Ry(-P["sim/mag_incl"]) @ np.array([mag_str, 0, 0])

    def violation(cls, site, msg, abort=False, **at):
        if len(viol) < 20 and not any(v["cls"] == cls for v in viol):
            c = state["core"]
            viol.append({"prop": "C12", "cls": cls, "site": site, "msg": msg, "at": at, "t": float(c.now) if c else 0.0, "gseq": rec.gseq})
        if abort:
            state["abort"] = True

    def spy_sim_att(msg):
        d = msg.data
        state["n_att"] += 1
        state["q_true"] = np.array(d["q"], dtype=float)
        state["t_true"] = float(d["time"])
        rec.rec(state["core"].now, "sim_att", None, q=d["q"].tobytes())

    def spy_imu(msg):
        d = msg.data
        state["n_imu"] += 1
        y = np.array(d["accel"], dtype=float)
        rec.rec(state["core"].now, "imu", None, b=d.tobytes())
        n = float(np.linalg.norm(y))
        state["worst_accel_norm"] = max(state["worst_accel_norm"], abs(n - g) / g)
        if not (abs(n - g) <= MEAS_REL_TOL * g):
            violation("accel_magnitude", "eqs['sim'].measure_accel", "simulated accelerometer norm %r at t=%r, configured g=%r" % (n, float(d["time"]), g))
        if state["t_true"] == float(d["time"]):
            R = rm.quat_to_R(state["q_true"])
            e = float(np.linalg.norm(R @ y - np.array([0, 0, -g])))
            state["worst_rot"] = max(state["worst_rot"], e / g)
            if not (e <= 1e-8 * g):
                violation("accel_direction", "eqs['sim'].measure_accel", "R(q_true)*y_accel = %s, expected (0,0,-g); error %r" % ((R @ y).tolist(), e))
        if viol:
            raise _Abort()

    def spy_mag(msg):
        d = msg.data
        state["n_mag"] += 1
        y = np.array(d["mag"], dtype=float)
        rec.rec(state["core"].now, "mag", None, b=d.tobytes())
        n = float(np.linalg.norm(y))
        state["worst_mag_norm"] = max(state["worst_mag_norm"], abs(n - mag_str) / mag_str)
        if not (abs(n - mag_str) <= MEAS_REL_TOL * mag_str):
            violation("mag_magnitude", "eqs['sim'].measure_mag", "simulated magnetometer norm %r at t=%r, configured %r" % (n, float(d["time"]), mag_str))
        if state["t_true"] == float(d["time"]):
            state["mag_rot_checked"] += 1
            R = rm.quat_to_R(state["q_true"])
            e = float(np.linalg.norm(R @ y - B_n))
            if not (e <= 1e-8 * mag_str):
                violation("mag_direction", "eqs['sim'].measure_mag", "R(q_true)*y_mag = %s, expected %s; error %r" % ((R @ y).tolist(), B_n.tolist(), e))
        if viol:
            raise _Abort()

    def spy_est(msg):
        d = msg.data
        state["n_est"] += 1
        rec.rec(state["core"].now, "est", None, q=d["q"].tobytes(), b=d["b"].tobytes())
        if not (np.all(np.isfinite(d["q"])) and np.all(np.isfinite(d["b"])) and np.all(np.isfinite(d["r"]))):
            violation("nan_in_estimate", "AttitudeEstimator.imu_callback", "non-finite value in published estimate at t=%r" % float(d["time"]))
            raise _Abort()

    def spy_status(msg):
        d = msg.data
        for k in ("accel_ret", "mag_ret"):
            c = d[k]
            if np.isfinite(c):
                key = "%s=%d" % (k, int(c))
                state["codes"][key] = state["codes"].get(key, 0) + 1

    RealCore, RealLogger = uros.Core, uros.Logger

    def core_factory(*a, **k):
        c = SimCore(*a, **k)
        c.sim_init(scn["policy"], stream(scn["sched_seed"], "schedule"), scn.get("budget", 3000000), rec)
        state["core"] = c
        return c

    def logger_factory(core, *a, **k):
        for topic, typ, cb in (("sim_attitude", msgs.Attitude, spy_sim_att), ("imu", msgs.Imu, spy_imu), ("mag", msgs.Mag, spy_mag),
                               ("mrp_attitude", msgs.Attitude, spy_est), ("mrp_status", msgs.EstimatorStatus, spy_status)):
            uros.Subscriber(core, topic, typ, cb)
        return RealLogger(core, *a, **k)

    harness_error = None
    data = None
    saved = (uros.Core, uros.Logger, simulator.np, estimator.time)
    buf = io.StringIO()
    try:
        uros.Core = core_factory
        uros.Logger = logger_factory
        simulator.np = _NpProxy(scn["seed"])
        estimator.time = _FakeTime()
        with contextlib.redirect_stdout(buf):
            data = launch.launch_sim({
                "tf": scn["tf"], "initialize": scn["initialize"], "estimators": ["mrp"],
                "x0": np.array(scn["x0"], dtype=float), "params": dict(P), "name": "dsim",
            })
    except BudgetExceeded as e:
        harness_error = "budget: %s" % e
    except Exception as e:
        import traceback

        if isinstance(e, _Abort) or isinstance(e.__cause__, _Abort):
            pass  # run ended at its first invariant violation
        elif exception_origin(e) in ("repo", "lib"):
            violation("exception_in_loop", "launch.launch_sim", "%s: %s" % (type(e).__name__, str(e)[:300]))
        else:
            harness_error = "exception (%s): %s\n%s" % (exception_origin(e), e, traceback.format_exc()[-1500:])
    finally:
        uros.Core, uros.Logger, simulator.np, estimator.time = saved

    metrics = {}
    core = state["core"]
    if data is not None and harness_error is None:
        rec.rec(scn["tf"], "log", None, b=data.tobytes())
    if data is not None and harness_error is None and scn["tf"] >= T_TRANSIENT + 5.0:  # convergence is judged on full-length runs only
        t = data["time"]
        sa, ea = data["sim_attitude"], data["mrp_attitude"]
        sync = np.isfinite(ea["time"]) & (sa["time"] == ea["time"])
        late = sync & (t >= T_TRANSIENT)
        if state["n_est"] == 0 or not np.any(late):
            violation("no_estimate", "AttitudeEstimator", "the estimator published %d estimates; none is available after t=%g s (initialisation never succeeded?)" % (state["n_est"], T_TRANSIENT))
        else:
            idx = np.nonzero(late)[0]
            errs = np.array([rm.angle_between_quats(sa["q"][i], ea["q"][i]) for i in idx])
            k = int(np.argmax(errs))
            metrics["att_err_max_after_transient"] = float(errs[k])
            metrics["att_err_end"] = float(errs[-1])
            if not np.all(np.isfinite(errs)) or errs[k] > ATT_ERR_MAX:
                violation("attitude_not_converged", "mrp estimator in closed loop",
                          "attitude error %.4f rad at t=%.3f s (limit %.2f rad for t >= %g s)" % (errs[k], float(t[idx[k]]), ATT_ERR_MAX, T_TRANSIENT))
            b_true = sa["b"][idx[-1]]
            b_est = ea["b"][idx[-1]]
            berr = np.abs(b_est - b_true)
            metrics["bias_err_end"] = berr.tolist()
            i0 = np.nonzero(sync)[0][0]
            berr0 = np.abs(ea["b"][i0] - sa["b"][i0])
            for j in range(3):
                if not np.isfinite(berr[j]) or berr[j] > BIAS_ERR_MAX:
                    violation("bias_not_converged", "mrp estimator in closed loop",
                              "gyro-bias component %d: estimate %.4f, truth %.4f at the end (limit %.3f rad/s)" % (j, b_est[j], b_true[j], BIAS_ERR_MAX), component=j)
                elif berr0[j] > 0.04 and berr[j] > 0.5 * berr0[j]:
                    violation("bias_not_converged", "mrp estimator in closed loop",
                              "gyro-bias component %d error went from %.4f to %.4f only" % (j, berr0[j], berr[j]), component=j)
        if np.any(~np.isfinite(ea["q"][sync])):
            violation("nan_in_estimate", "log", "non-finite estimate in the log")

    probes = {"estimates_published": state["n_est"], "mag_rotation_checked": state["mag_rot_checked"],
              "initialize_path": int(bool(scn["initialize"])), "tie_resolved_against_fifo": core.sim_ties_nonfifo if core else 0}
    for k, v in state["codes"].items():
        probes["code_" + k] = v
    return {
        "violations": viol,
        "harness_error": harness_error,
        "counters": {"imu_msgs": state["n_imu"], "mag_msgs": state["n_mag"], "estimates": state["n_est"],
                     "ties": core.sim_ties if core else 0, "events": core.sim_steps if core else 0},
        "faults": {"tie_order": core.sim_ties_nonfifo if core else 0, "rate_config": 1, "initial_condition_draw": 1},
        "probes": probes,
        "metrics": metrics,
        "sig": rec.signature() + "/%s/%s" % (scn["policy"], scn["initialize"]),
        "digest": rec.digest(),
        "sim_s": float(scn["tf"]),
        "events": core.sim_steps if core else 0,
        "nontrivial": True,
        "worst": {"accel_norm_rel": state["worst_accel_norm"], "mag_norm_rel": state["worst_mag_norm"], "rot_rel": state["worst_rot"]},
    }


def sample(scn):
    return {k: scn[k] for k in ("family", "seed", "policy", "x0", "initialize", "params", "tf")}


LIST_KEYS = ()


def simplify(scn):
    out = []
    if scn["policy"] != "fifo":
        out.append(dict(scn, policy="fifo"))
    for tf in (0.01, 1.0, 5.0):
        if tf < scn["tf"]:
            out.append(dict(scn, tf=tf))
            break
    std = {"sim/dt_sim": 1 / 400, "sim/dt_imu": 1 / 200, "sim/dt_mag": 1 / 50, "logger/dt": 1 / 200,
           "mrp/dt_min_accel": 1 / 200, "mrp/dt_min_mag": 1 / 200, "sim/mag_str": 0.1}
    for k, v in std.items():
        if scn["params"].get(k) != v:
            p = dict(scn["params"])
            p[k] = v
            out.append(dict(scn, params=p))
    for k in ("sim/mag_incl", "sim/mag_decl"):
        if scn["params"].get(k) != 0.0:
            p = dict(scn["params"])
            p[k] = 0.0
            if k == "sim/mag_decl":
                p["mrp/mag_decl"] = 0.0
            out.append(dict(scn, params=p))
    x0 = list(scn["x0"])
    for i in range(6):
        if x0[i] != 0.0:
            y = list(x0)
            y[i] = 0.0
            out.append(dict(scn, x0=y))
            if abs(x0[i]) > 0.01:
                y = list(x0)
                y[i] = round(x0[i], 1)
                if y[i] != x0[i]:
                    out.append(dict(scn, x0=y))
    return out
