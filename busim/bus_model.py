"""C20 (clauses a-d): the real uros bus under seeded publish / subscribe / parameter
histories and tie-break schedules, checked against a sequential reference model.

Real code : uros.Core / Publisher / Subscriber / Param / Logger, msgs.*, simpy
Stubs     : scripted test nodes (actors, subscribers, parameter followers)
"""
import copy

import numpy as np

from dsim import bootstrap
from dsim.kernel import Recorder, make_simcore_class, stream, BudgetExceeded

NAME = "bus_model"
PROPS = ("C20",)

MSG_TYPES = ("Imu", "Mag", "Attitude", "EstimatorStatus")
TOPIC_NAMES = ("a", "ab", "a_b", "b", "ba", "imu", "imu2", "x/y", "x")


def setup():
    bootstrap()
    import cyecca.sim.uros  # noqa
    import cyecca.sim.msgs  # noqa


# ---------------------------------------------------------------------------
# generation
# ---------------------------------------------------------------------------
def gen(seed, tier="quick"):
    topo = stream(seed, "topology")
    work = stream(seed, "workload")
    flt = stream(seed, "faults")
    knobs = stream(seed, "knobs")

    big = tier == "thorough" and knobs.random() < 0.3
    n_topics = topo.randint(2, 6)
    names = topo.sample(TOPIC_NAMES, n_topics)
    topics = []
    for n in names:
        topics.append({"name": n, "type": topo.choice(MSG_TYPES)})

    # republish graph is acyclic: topic i may only be re-published from callbacks of
    # topics with a smaller index
    subs = []
    sid = 0
    reg = []
    for ti, tp in enumerate(topics):
        k = topo.choice([0, 1, 1, 2, 2, 3])
        for _ in range(k):
            rp = []
            if ti + 1 < n_topics and topo.random() < 0.35:
                rp = [topics[j]["name"] for j in topo.sample(range(ti + 1, n_topics), topo.randint(1, min(2, n_topics - ti - 1)))]
            reg.append({"id": sid, "topic": tp["name"], "type": tp["type"], "republish": rp, "declares_base": topo.random() < 0.15})
            sid += 1
    # subscribers on topics nobody publishes
    for _ in range(topo.choice([0, 0, 1, 2])):
        reg.append({"id": sid, "topic": "ghost%d" % sid, "type": topo.choice(MSG_TYPES), "republish": []})
        sid += 1
    topo.shuffle(reg)  # registration order is generated
    subs = reg

    nodes = []
    pnames = []
    for ni in range(topo.randint(1, 4)):
        ps = []
        for pi in range(topo.randint(1, 3)):
            dt = topo.choice(["f8", "f8", "?"])
            val = (topo.random() < 0.5) if dt == "?" else topo.choice([round(topo.uniform(-5, 5), 3), round(topo.uniform(-5, 5), 3), 0, 1, topo.randint(-3, 3)])
            nm = "n%d/p%d" % (ni, pi)
            ps.append({"name": nm, "value": val, "dtype": dt})
            pnames.append((nm, dt))
        nodes.append({"name": "n%d" % ni, "params": ps, "follows": topo.random() < 0.8})

    # set-up order: publishers and subscribers are created in one generated order, and some
    # publishers already publish before everybody (including the logger) has subscribed
    setup = [{"op": "mk_pub", "topic": tp["name"]} for tp in topics]
    if topo.random() < 0.5:
        mixed = setup + [{"op": "mk_sub", "id": sp["id"]} for sp in subs]
        topo.shuffle(mixed)
        # keep the relative order of subscribers as generated (registration order is `subs`)
        it = iter(subs)
        setup = [({"op": "mk_sub", "id": next(it)["id"]} if m["op"] == "mk_sub" else m) for m in mixed]
        for _ in range(topo.choice([0, 1, 2, 4])):
            tp = topo.choice(topics)
            item = {"op": "early_pub", "topic": tp["name"]}
            if topo.random() < 0.3:
                item["wrong"] = topo.choice([m for m in MSG_TYPES if m != tp["type"]])  # must be rejected even if nobody listens yet
            setup.insert(topo.randint(0, len(setup)), item)
    else:
        setup = setup + [{"op": "mk_sub", "id": sp["id"]} for sp in subs]

    # derived parameters: a following node sets another parameter from inside its parameter callback
    f8 = [nm for nm, dt in pnames if dt == "f8"]
    used_src, used_dst = set(), set()
    for nd in nodes:
        if nd["follows"] and len(f8) >= 2 and topo.random() < 0.35:
            src, dst = topo.sample(f8, 2)
            if src in used_dst or dst in used_src or dst in used_dst:
                continue
            used_src.add(src)
            used_dst.add(dst)
            nd["derive"] = {"src": src, "dst": dst, "gain": topo.choice([2.0, -1.0, 0.5])}

    tf = knobs.choice([0.05, 0.2, 0.5, 1.0, 3.0]) if not big else 3.0
    ldt0 = knobs.choice([1 / 4000, 1 / 2000, 1 / 1000, 1 / 400, 1 / 200, 1 / 100, 1 / 50, 1 / 20, 1 / 5, 0.0173, 0.003])  # sub-millisecond periods included
    if tf / ldt0 > 1500:
        ldt0 = tf / 1500
    pnames.append(("logger/dt", "f8"))
    # round 7: the logger's own period as a derived parameter (the logger is the last follower, so a
    # broadcast that resumes with an older snapshot reverts it there), and followers that take the
    # values from the message they are handed instead of asking the core
    par2 = stream(seed, "params2")
    for nd in nodes:
        if nd["follows"] and "derive" not in nd and f8 and par2.random() < 0.3 and "logger/dt" not in used_dst:
            src = par2.choice(f8)
            if src in used_dst:
                continue
            used_src.add(src)
            used_dst.add("logger/dt")
            nd["derive"] = {"src": src, "dst": "logger/dt", "gain": 1.0, "map": "period", "base": ldt0}
    for nd in nodes:
        nd["reads_msg"] = nd["follows"] and par2.random() < 0.4

    # candidate op times: exact ties with logger ticks (same float accumulation as the
    # logger), sub-period offsets around them, a coarse grid shared between actors
    ticks = []
    t = 0.0
    while t < tf and len(ticks) < 4000:
        ticks.append(t)
        t = t + ldt0
    grid = [i * tf / 16 for i in range(16)]

    def pick_time():
        r = work.random()
        if r < 0.3:
            return work.choice(ticks)
        if r < 0.5:
            return max(0.0, min(tf * 0.999, work.choice(ticks) + work.choice([-1, 1]) * work.choice([1e-9, 1e-6, 1e-3])))
        if r < 0.8:
            return work.choice(grid)
        return work.uniform(0, tf * 0.999)

    n_ops = work.randint(10, 200 if tier == "thorough" else 80)
    n_actors = work.randint(1, 4)
    enabled = {k: flt.random() < 0.6 for k in ("wrong_type", "non_msg", "late_reg", "mutate_after", "repeat_same", "param_midrun", "logger_dt_change", "undeclared_param", "stale_stamp")}
    ops = []
    for _ in range(n_ops):
        r = work.random()
        tt = pick_time()
        actor = work.randrange(n_actors)
        if r < 0.62:
            tp = work.choice(topics)
            op = {"t": tt, "actor": actor, "op": "pub", "topic": tp["name"],
                  "fresh": work.random() < 0.3,
                  "mutate_after": enabled["mutate_after"] and flt.random() < 0.5}
            if enabled["stale_stamp"] and flt.random() < 0.3:
                op["stamp_offset"] = -flt.choice([1e-6, 1e-3, 0.05, 10.0])  # data stamped earlier than what was published before
            if enabled["repeat_same"] and flt.random() < 0.1:
                op["op"] = "pub_same"
        elif r < 0.80:
            if not enabled["param_midrun"]:
                continue
            nm, dt = work.choice(pnames)
            if nm == "logger/dt":
                if not enabled["logger_dt_change"]:
                    continue
                val = work.choice([1 / 2500, 1 / 1000, 1 / 200, 1 / 50, 0.0173, 1 / 5, tf / 7])
                if tf / val > 1500:
                    val = tf / 1500
            elif dt == "?":
                val = work.random() < 0.5
            else:
                val = work.choice([round(work.uniform(-100, 100), 4), 0.0, 1e-12, 1e300, -0.0, 7])
            op = {"t": tt, "actor": actor, "op": "set_param", "name": nm, "value": val}
        elif r < 0.86:
            if not enabled["wrong_type"]:
                continue
            tp = work.choice(topics)
            wt = work.choice([m for m in MSG_TYPES if m != tp["type"]])
            op = {"t": tt, "actor": actor, "op": "pub_wrong", "topic": tp["name"], "wrong": wt}
        elif r < 0.90:
            if not enabled["non_msg"]:
                continue
            tp = work.choice(topics)
            op = {"t": tt, "actor": actor, "op": "pub_nonmsg", "topic": tp["name"], "what": work.choice(["none", "dict", "ndarray", "str"])}
        elif r < 0.96:
            if not enabled["late_reg"]:
                continue
            tp = work.choice(topics)
            op = {"t": tt, "actor": actor, "op": work.choice(["late_sub", "late_pub", "late_param"]), "topic": tp["name"], "type": tp["type"]}
        else:
            if not enabled["undeclared_param"]:
                continue
            op = {"t": tt, "actor": actor, "op": "set_undeclared", "name": "nope/x", "value": 1.0}
        ops.append(op)
    ops.sort(key=lambda o: (o["t"], o["actor"]))

    segments, between_ops = [], []
    if knobs.random() < 0.25:
        segments = sorted(knobs.choice(ticks + grid[1:]) for _ in range(knobs.randint(1, 2)))
        segments = [x for x in segments if 0.0 < x < tf]
        for bi in range(len(segments)):
            for _ in range(knobs.randint(0, 3)):
                if knobs.random() < 0.5:
                    tp = knobs.choice(topics)
                    between_ops.append({"boundary": bi, "actor": 7, "op": "pub", "topic": tp["name"], "fresh": False, "mutate_after": knobs.random() < 0.5})
                else:
                    nm, dt = knobs.choice(pnames)
                    if nm == "logger/dt":
                        val = knobs.choice([1 / 200, 1 / 50, tf / 7])
                        if tf / val > 1500:
                            val = tf / 1500
                    elif dt == "?":
                        val = knobs.random() < 0.5
                    else:
                        val = round(knobs.uniform(-100, 100), 4)
                    between_ops.append({"boundary": bi, "actor": 7, "op": "set_param", "name": nm, "value": val})

    init_params = {}
    for nm, dt in pnames:
        if knobs.random() < 0.3 and nm != "logger/dt":
            init_params[nm] = (knobs.random() < 0.5) if dt == "?" else round(knobs.uniform(-9, 9), 2)
    init_params["logger/dt"] = ldt0

    return {
        "family": NAME,
        "seed": seed,
        "policy": knobs.choice(["fifo", "lifo", "random", "random"]),
        "sched_seed": seed,
        "topics": topics,
        "subs": subs,
        "setup": setup,
        "nodes": nodes,
        "init_params": init_params,
        "ops": ops,
        "segments": segments,
        "between_ops": between_ops,
        "tf": tf,
        "budget": 400000,
    }


# ---------------------------------------------------------------------------
# reference model
# ---------------------------------------------------------------------------
class BusModel:
    """Sequential reference model: dicts and lists, nothing else."""

    def __init__(self):
        self.subs = {}  # topic -> [sub id] in registration order
        self.types = {}  # topic -> type name
        self.republish = {}  # sub id -> [topic]
        self.params = {}  # name -> (value, dtype)
        self.serial = 0
        self.has_pub = set()  # topics whose publisher exists (nested publications need one)
        self.rules = []  # derived parameters: {"node", "src", "dst", "gain", "seen"}

    @staticmethod
    def derived_value(rule, cur):
        if rule.get("map") == "period":
            a = abs(float(cur))
            return rule["base"] * (1.0 + (a % 3.0)) if a == a and a != float("inf") else rule["base"]
        return rule["gain"] * float(cur)

    def add_topic(self, topic, tname):
        self.types[topic] = tname

    def add_sub(self, sid, topic, republish=()):
        self.subs.setdefault(topic, []).append(sid)
        self.republish[sid] = list(republish)

    def broadcast(self):
        """One parameter broadcast reaches every following node; a node with a derived parameter
        sets it (a nested set_param) when the source value it sees has changed."""
        import numpy as _np

        for r in self.rules:
            v, dt = self.params[r["src"]]
            cur = _np.array(v, dtype=dt)[()]
            key = _np.array(cur).tobytes()
            if key != r["seen"]:
                r["seen"] = key
                self.params[r["dst"]] = (self.derived_value(r, cur), self.params[r["dst"]][1])

    def next_serial(self):
        self.serial += 1
        return self.serial

    def expand(self, topic, serial, out):
        """Expected callback entries, depth first, for one accepted publication."""
        for sid in self.subs.get(topic, []):
            out.append((sid, topic, serial))
            for t2 in self.republish.get(sid, []):
                if t2 not in self.has_pub:
                    continue
                s2 = self.next_serial()
                self.expand(t2, s2, out)
        return out


# ---------------------------------------------------------------------------
# execution
# ---------------------------------------------------------------------------
def _fill(msg, serial, now, stamp=None):
    """Every element of every field gets a value unique to this publication.  The message's own
    time stamp is the publication time unless the scenario says otherwise (late, out-of-order data)."""
    d = msg.data
    base = float(serial * 256)
    i = 1
    for name in d.dtype.names:
        if name == "time":
            d[name] = now if stamp is None else stamp
            continue
        shp = d.dtype[name].shape
        if shp:
            n = int(np.prod(shp))
            d[name] = (base + i + np.arange(n, dtype=float)).reshape(shp)
            i += n
        else:
            d[name] = base + i
            i += 1


def _garbage(msg):
    d = msg.data
    for name in d.dtype.names:
        d[name] = -7.0


def run(scn):
    bootstrap()
    import simpy
    from cyecca.sim import msgs, uros

    SimCore = make_simcore_class()
    rec = Recorder()
    core = SimCore()
    core.sim_init(scn["policy"], stream(scn["sched_seed"], "schedule"), scn.get("budget", 400000), rec)

    model = BusModel()
    viol = []
    counters = {"publishes": 0, "deliveries": 0, "rows": 0, "set_params": 0, "rejected": 0, "late_attempts": 0,
                "max_depth": 0, "param_checks": 0}
    faults = {}

    def fault(k, n=1):
        faults[k] = faults.get(k, 0) + n

    def violation(cls, site, msg, **at):
        if len(viol) < 20:
            viol.append({"prop": "C20", "cls": cls, "site": site, "msg": msg, "at": at, "t": float(core.now), "gseq": rec.gseq})

    tname = {tp["name"]: tp["type"] for tp in scn["topics"]}
    pubs = {}
    model.add_topic("params", "Params")

    delivered = []  # actual callback entries (sid, topic, serial) of the current top-level op
    depth = [0]
    serial_of = {}  # id(msg) -> serial currently carried
    content = {}  # (topic, serial) -> bytes at publish time

    def do_publish(topic, msg, serial):
        serial_of[id(msg)] = serial
        content[(topic, serial)] = msg.data.tobytes()
        rec.rec(core.now, "pub", topic, serial=serial)
        counters["publishes"] += 1
        pubs[topic].publish(msg)
        rec.rec(core.now, "pub_ret", topic, serial=serial)

    class Sub:
        def __init__(self, spec):
            self.spec = spec
            self.sid = spec["id"]
            self.msgs = {t: getattr(msgs, tname[t])() for t in spec["republish"] if t in tname}
            # a subscriber may declare the base message type (the bus never looks at it)
            self.sub = uros.Subscriber(core, spec["topic"], msgs.Msg if spec.get("declares_base") else getattr(msgs, spec["type"]), self.cb)

        def cb(self, msg):
            depth[0] += 1
            counters["max_depth"] = max(counters["max_depth"], depth[0])
            serial = serial_of.get(id(msg), -1)
            topic = self.spec["topic"]
            rec.rec(core.now, "cb", topic, sid=self.sid, serial=serial)
            delivered.append((self.sid, topic, serial))
            counters["deliveries"] += 1
            exp = content.get((topic, serial))
            if exp is None or msg.data.tobytes() != exp:
                violation("delivered_content_differs", "Publisher.publish", "subscriber %d on %s saw different bytes than were published (serial %s)" % (self.sid, topic, serial))
            for t2 in self.spec["republish"]:
                if t2 not in pubs:
                    continue
                fault("reentrant_publish")
                m2 = self.msgs[t2]
                s2 = rt_serial()
                _fill(m2, s2, core.now)
                do_publish(t2, m2, s2)
            depth[0] -= 1

    rt = [0]

    def rt_serial():
        rt[0] += 1
        return rt[0]

    def publish_and_compare(topic, msg, serial, what="publish"):
        """Publish on the real bus and compare the callbacks it makes with the reference model."""
        model.serial = rt[0]
        scratch = copy.copy(model)
        exp = []
        scratch.expand(topic, serial, exp)
        del delivered[:]
        do_publish(topic, msg, serial)
        if delivered != exp:
            i = 0
            while i < min(len(delivered), len(exp)) and delivered[i] == exp[i]:
                i += 1
            violation("delivery_history_differs", "Publisher.publish",
                      "%s on %s serial %d: callbacks (sub, topic, serial) %s but reference model expects %s (first difference at index %d)"
                      % (what, topic, serial, delivered[:10], exp[:10], i), topic=topic)
        if rt[0] != scratch.serial:
            violation("delivery_history_differs", "Publisher.publish", "nested publications: %d happened, model expects %d" % (rt[0] - serial, scratch.serial - serial), topic=topic)
        model.serial = rt[0]

    # set-up phase: publishers and subscribers are created in a generated order, and publishers may
    # already publish while later subscribers (and the logger) do not exist yet
    sub_objs = {}
    sub_specs = {sp["id"]: sp for sp in scn["subs"]}
    setup = scn.get("setup")
    if setup is None:
        setup = [{"op": "mk_pub", "topic": tp["name"]} for tp in scn["topics"]] + [{"op": "mk_sub", "id": sp["id"]} for sp in scn["subs"]]
    early_msgs = {}
    for item in setup:
        if item["op"] == "mk_pub":
            tn = item["topic"]
            if tn in tname and tn not in pubs:
                pubs[tn] = uros.Publisher(core, tn, getattr(msgs, tname[tn]))
                model.add_topic(tn, tname[tn])
                model.has_pub.add(tn)
        elif item["op"] == "mk_sub":
            spec = sub_specs.get(item["id"])
            if spec is None or spec["id"] in sub_objs:
                continue
            if spec["topic"] in tname and spec["type"] != tname[spec["topic"]]:
                spec = dict(spec, type=tname[spec["topic"]])
            sub_objs[spec["id"]] = Sub(spec)
            model.add_sub(spec["id"], spec["topic"], [t for t in spec["republish"] if t in tname])
            if spec["topic"] not in tname:
                fault("subscriber_without_publisher")
        elif item["op"] == "early_pub" and item.get("wrong"):
            tn = item["topic"]
            if tn in pubs:
                fault("wrong_type_publish")
                mw = getattr(msgs, item["wrong"])()
                serial_of[id(mw)] = -2
                del delivered[:]
                rec.rec(core.now, "pub_wrong", tn)
                try:
                    pubs[tn].publish(mw)
                    violation("wrong_type_accepted", "Publisher.publish", "set-up phase: a %s message was accepted on topic %s of type %s (%d subscribers so far)" % (
                        item["wrong"], tn, tname[tn], len(model.subs.get(tn, []))), topic=tn)
                except Exception as e:
                    counters["rejected"] += 1
                    rec.rec(core.now, "rejected", type(e).__name__)
                if delivered:
                    violation("wrong_type_delivered", "Publisher.publish", "a rejected message reached %s" % (delivered[:5],), topic=tn)
        elif item["op"] == "early_pub":
            tn = item["topic"]
            if tn in pubs:
                fault("publish_before_all_subscribed")
                if tn not in early_msgs:
                    early_msgs[tn] = getattr(msgs, tname[tn])()
                sr = rt_serial()
                _fill(early_msgs[tn], sr, core.now)
                publish_and_compare(tn, early_msgs[tn], sr, "set-up phase publish")
    # anything the set-up list forgot (shrunk scenarios)
    for tp in scn["topics"]:
        if tp["name"] not in pubs:
            pubs[tp["name"]] = uros.Publisher(core, tp["name"], getattr(msgs, tp["type"]))
            model.add_topic(tp["name"], tp["type"])
            model.has_pub.add(tp["name"])
    for spec in scn["subs"]:
        if spec["id"] not in sub_objs:
            if spec["topic"] in tname and spec["type"] != tname[spec["topic"]]:
                spec = dict(spec, type=tname[spec["topic"]])
            sub_objs[spec["id"]] = Sub(spec)
            model.add_sub(spec["id"], spec["topic"], [t for t in spec["republish"] if t in tname])
    for tp in scn["topics"]:
        if not model.subs.get(tp["name"]):
            fault("topic_without_subscriber")

    # parameter nodes (same idiom as the repo's nodes)
    class PNode:
        def __init__(self, spec):
            self.spec = spec
            self.param_list = [uros.Param(core, p["name"], p["value"], p["dtype"]) for p in spec["params"]]
            self.n_cb = 0
            self.seen_src = None
            if spec["follows"]:
                self.sub = uros.Subscriber(core, "params", msgs.Params, self.params_callback)

        def params_callback(self, msg):
            self.n_cb += 1
            rec.rec(core.now, "pcb", self.spec["name"])
            for p in self.param_list:
                p.update()
            if self.spec.get("reads_msg"):
                # the other idiom of following the topic: take the values from the message handed over
                self.msg_vals = {p.name: np.array(msg.data[p.name]).tobytes() for p in self.param_list}
            d = self.spec.get("derive")
            if d and d["src"] in declared and (d["dst"] in declared or d["dst"] == "logger/dt"):
                v = core.get_param(d["src"])
                key = np.array(v).tobytes()
                if key != self.seen_src:
                    # a derived parameter: set from inside the parameter callback (nested broadcast)
                    self.seen_src = key
                    fault("reentrant_set_param")
                    core.set_param(d["dst"], BusModel.derived_value(d, v))

    declared = {p["name"]: p["dtype"] for n in scn["nodes"] for p in n["params"]}
    pnodes = [PNode(n) for n in scn["nodes"]]
    for n in scn["nodes"]:
        for p in n["params"]:
            model.params[p["name"]] = (p["value"], p["dtype"])
    for n in scn["nodes"]:
        d = n.get("derive")
        if d and n["follows"] and d["src"] in declared and (d["dst"] in declared or d["dst"] == "logger/dt"):
            model.rules.append(dict(d, node=n["name"], seen=None))

    logger = uros.Logger(core)
    model.params["logger/dt"] = (1.0 / 200, "f8")

    # the logger subscribed to every topic that has a publisher, after everyone else
    LOGGER_SID = 10 ** 6
    logger_seen = {}  # topic -> bytes last delivered to the logger

    def wrap_logger_cb(topic, orig):
        def cb(msg):
            serial = serial_of.get(id(msg), -1)
            if topic != "params":
                rec.rec(core.now, "cb", topic, sid=LOGGER_SID, serial=serial)
                delivered.append((LOGGER_SID, topic, serial))
            logger_seen[topic] = msg.data.tobytes()
            orig(msg)
        return cb

    for topic, s in logger.subs.items():
        s.callback = wrap_logger_cb(topic, s.callback)
        if topic != "params":
            model.add_sub(LOGGER_SID, topic, [])

    # record every appended row (snapshot at append time)
    rows = []

    class RecList(list):
        def append(self_inner, item):
            gs = rec.rec(core.now, "row", None, n=len(self_inner))
            rows.append({"gseq": gs, "t": float(core.now), "bytes": np.array(item).tobytes(),
                         "seen": dict(logger_seen), "dt_model": model_coerce("logger/dt")})
            counters["rows"] += 1
            list.append(self_inner, item)

    logger.data_list = RecList(logger.data_list)

    core.init_params()

    def model_coerce(name):
        v, dt = model.params[name]
        return np.array(v, dtype=dt)[()]

    def check_followers(where):
        for pn in pnodes:
            if not pn.spec["follows"]:
                continue
            for p in pn.param_list:
                counters["param_checks"] += 1
                exp = model_coerce(p.name)
                got = p.get()
                same = (np.array(got).tobytes() == np.array(exp).tobytes()) and np.array(got).dtype == np.array(exp).dtype
                if not same:
                    violation("param_not_seen", "Core.set_param/Param.update",
                              "%s: follower %s reads %r, core was set to %r" % (where, p.name, got, exp), name=p.name)
            if pn.spec.get("reads_msg") and getattr(pn, "msg_vals", None) is not None:
                for p in pn.param_list:
                    counters["param_msg_checks"] = counters.get("param_msg_checks", 0) + 1
                    exp = model_coerce(p.name)
                    if pn.msg_vals[p.name] != np.array(exp).tobytes():
                        violation("param_not_seen", "Core.set_param/params message",
                                  "%s: the last parameter message handed to follower %s carries %s = %r, core was set to %r" % (where, pn.spec["name"], p.name, np.frombuffer(pn.msg_vals[p.name], dtype=np.array(exp).dtype)[0], exp), name=p.name)
        exp = model_coerce("logger/dt")
        if np.array(logger.dt.get()).tobytes() != np.array(exp).tobytes():
            violation("param_not_seen", "Logger.callback", "%s: logger/dt reads %r, core was set to %r" % (where, logger.dt.get(), exp), name="logger/dt")

    def do_set_param(name, value, where):
        counters["set_params"] += 1
        model.params[name] = (value, model.params[name][1])
        model.broadcast()
        ncb0 = [pn.n_cb for pn in pnodes]
        rec.rec(core.now, "set_param", name, value=repr(value))
        core.set_param(name, value)
        rec.rec(core.now, "set_param_ret", name)
        # how many broadcasts one set_param causes is not part of the property (only that the value
        # is seen afterwards), so the count is a probe
        for pn, n0 in zip(pnodes, ncb0):
            if pn.spec["follows"] and pn.n_cb != n0 + 1:
                counters["broadcast_count_not_one"] = counters.get("broadcast_count_not_one", 0) + 1
        check_followers(where)

    for k, v in scn["init_params"].items():
        if k in model.params:
            do_set_param(k, v, "initial set_param")

    # actors ---------------------------------------------------------------
    actor_msgs = {}

    def get_msg(actor, topic, fresh):
        if fresh:
            return getattr(msgs, tname[topic])()
        key = (actor, topic)
        if key not in actor_msgs:
            actor_msgs[key] = getattr(msgs, tname[topic])()
        return actor_msgs[key]

    last_pub = {}  # actor -> (topic, msg, serial)

    def execute(op):
        kind = op["op"]
        del delivered[:]
        if kind in ("pub", "pub_same"):
            topic = op["topic"]
            if kind == "pub_same" and op["actor"] in last_pub and last_pub[op["actor"]][0] == topic and not last_pub[op["actor"]][3]:
                _, msg, serial, _ = last_pub[op["actor"]]
                fault("repeat_same_message")
                # identical object, identical content, published again: a new publication
            else:
                msg = get_msg(op["actor"], topic, op.get("fresh", False))
                serial = rt_serial()
                if op.get("stamp_offset") is not None:
                    fault("stale_timestamp")
                    _fill(msg, serial, core.now, core.now + op["stamp_offset"])
                else:
                    _fill(msg, serial, core.now)
            publish_and_compare(topic, msg, serial)
            mutated = False
            if op.get("mutate_after"):
                fault("mutate_after_publish")
                _garbage(msg)
                mutated = True
            last_pub[op["actor"]] = (topic, msg, serial, mutated)
        elif kind == "set_param":
            if op["name"] in model.params:
                fault("param_update_midrun")
                do_set_param(op["name"], op["value"], "set_param at t=%r" % core.now)
        elif kind == "set_undeclared":
            fault("undeclared_param")
            try:
                core.set_param(op["name"], op["value"])
                rec.rec(core.now, "undeclared_ok", op["name"])
            except Exception as e:  # outcome not specified by C20; state must stay consistent
                rec.rec(core.now, "undeclared_raised", type(e).__name__)
            check_followers("after set_param of an undeclared name")
        elif kind == "pub_wrong":
            fault("wrong_type_publish")
            m = getattr(msgs, op["wrong"])()
            serial_of[id(m)] = -2
            rec.rec(core.now, "pub_wrong", op["topic"])
            try:
                pubs[op["topic"]].publish(m)
                violation("wrong_type_accepted", "Publisher.publish", "a %s message was accepted on topic %s of type %s" % (op["wrong"], op["topic"], tname[op["topic"]]), topic=op["topic"])
            except Exception as e:
                counters["rejected"] += 1
                rec.rec(core.now, "rejected", type(e).__name__)
            if delivered:
                violation("wrong_type_delivered", "Publisher.publish", "a rejected message reached %s" % (delivered[:5],), topic=op["topic"])
        elif kind == "pub_nonmsg":
            fault("non_msg_publish")
            what = {"none": None, "dict": {"time": 0.0}, "ndarray": np.zeros(3), "str": "imu"}[op["what"]]
            rec.rec(core.now, "pub_nonmsg", op["topic"])
            try:
                pubs[op["topic"]].publish(what)
                violation("wrong_type_accepted", "Publisher.publish", "a %s object was accepted on topic %s" % (op["what"], op["topic"]), topic=op["topic"])
            except Exception as e:
                counters["rejected"] += 1
                rec.rec(core.now, "rejected", type(e).__name__)
            if delivered:
                violation("wrong_type_delivered", "Publisher.publish", "a rejected object reached %s" % (delivered[:5],), topic=op["topic"])
        elif kind in ("late_sub", "late_pub", "late_param"):
            fault("late_registration")
            counters["late_attempts"] += 1
            try:
                if kind == "late_sub":
                    spec = {"id": 5000 + counters["late_attempts"], "topic": op["topic"], "type": op["type"], "republish": []}
                    s = Sub(spec)
                    sub_objs[spec["id"]] = s
                    model.add_sub(spec["id"], spec["topic"], [])  # accepted => it is a subscriber
                    rec.rec(core.now, "late_ok", kind)
                elif kind == "late_pub":
                    uros.Publisher(core, "late%d" % counters["late_attempts"], getattr(msgs, op["type"]))
                    rec.rec(core.now, "late_ok", kind)
                else:
                    uros.Param(core, "late/p%d" % counters["late_attempts"], 1.0, "f8")
                    rec.rec(core.now, "late_ok", kind)
            except Exception as e:
                rec.rec(core.now, "late_refused", type(e).__name__)

    by_actor = {}
    for i, op in enumerate(scn["ops"]):
        by_actor.setdefault(op["actor"], []).append(op)

    def actor_proc(ops):
        for op in ops:
            if op["t"] > core.now:
                yield core.at(op["t"])
            elif op["t"] < core.now:
                pass
            execute(op)

    for a in sorted(by_actor):
        simpy.Process(core, actor_proc(by_actor[a]))

    # initial broadcast happens inside run(); followers must agree right after it:
    # checked by a process that runs at t=0 (whatever its tie order, run() has
    # already broadcast before the first event is processed)
    def first_check():
        model.broadcast()
        check_followers("after the initial parameter broadcast")
        yield core.at(0.0)

    simpy.Process(core, first_check())

    harness_error = None
    repo_exc = None
    try:
        # the run may be split into segments (`run(until=...)` called again on the same core, as a
        # caller stepping a simulation does); operations may happen between segments
        t_prev = 0.0
        for bi, t_stop in enumerate(sorted(set(float(x) for x in scn.get("segments", []) if 0.0 < float(x) < scn["tf"]))):
            core.run(until=t_stop)
            fault("run_segment_boundary")
            for op in scn.get("between_ops", []):
                if op.get("boundary") == bi:
                    execute(dict(op, t=t_stop))
            # run() broadcasts the parameters again when it is re-entered
            t_prev = t_stop
        if t_prev > 0.0:
            model.broadcast()
        core.run(until=scn["tf"])
        if t_prev > 0.0:
            check_followers("after the run was resumed")
    except BudgetExceeded as e:
        harness_error = "budget: %s" % e
    except Exception as e:  # an exception escaping the bus run
        import traceback
        from dsim.util import exception_origin
        where = exception_origin(e)
        if where == "repo":
            # raised by repository code on a history the API allows: every accepted
            # message must be delivered, so an exception here is a verdict, not noise
            violation("exception_in_bus", "core.run", "%s: %s" % (type(e).__name__, str(e)[:300]))
        else:
            harness_error = "exception during run (%s): %s\n%s" % (where, e, traceback.format_exc()[-1500:])

    # history oracle for the logger -------------------------------------------
    if harness_error is None:
        log_dtype = logger.data_latest.dtype
        topics_logged = [n for n in log_dtype.names if n != "time"]
        exp_t = None
        for k, r in enumerate(rows):
            if k == 0:
                exp_t = 0.0
            # one row per logging period: the period in force when the previous row was taken; how the
            # implementation accumulates floating-point time is its own business (1e-6 of a period)
            tol = 1e-12 + 1e-6 * (float(rows[k - 1]["dt_model"]) if k else 0.0)
            if abs(r["t"] - exp_t) > tol:
                violation("row_schedule", "Logger.run", "row %d taken at t=%r, reference model expects t=%r (one row per logging period)" % (k, r["t"], exp_t), row=k)
                break
            e = np.zeros(1, dtype=log_dtype)[0]
            e.fill(np.nan)
            e["time"] = r["t"]
            eb = bytearray(e.tobytes())
            for tn in topics_logged:
                if tn in r["seen"]:
                    off = log_dtype.fields[tn][1]
                    b = r["seen"][tn]
                    eb[off:off + len(b)] = b
            if bytes(eb) != r["bytes"]:
                bad = [tn for tn in ["time"] + topics_logged
                       if bytes(eb)[log_dtype.fields[tn][1]:log_dtype.fields[tn][1] + log_dtype.fields[tn][0].itemsize]
                       != r["bytes"][log_dtype.fields[tn][1]:log_dtype.fields[tn][1] + log_dtype.fields[tn][0].itemsize]]
                violation("row_content", "Logger.run/Logger.callback", "row %d at t=%r: fields %s are not the latest message delivered before the row" % (k, r["t"], bad), row=k)
                break
            exp_t = r["t"] + float(r["dt_model"])
        if rows and exp_t is not None and not viol:
            if exp_t < scn["tf"] - 1e-6 * float(rows[-1]["dt_model"]) - 1e-12:
                violation("row_missing", "Logger.run", "no row at t=%r although the run lasted until %r" % (exp_t, scn["tf"]))
        if not rows:
            violation("row_missing", "Logger.run", "logger recorded no row at all")
        ts = [r["t"] for r in rows]
        if any(b < a for a, b in zip(ts, ts[1:])):
            violation("row_time_decreases", "Logger.run", "row times decrease")
        try:
            arr = logger.get_log_as_array()
            snap = b"".join(r["bytes"] for r in rows)
            if arr.tobytes() != snap:
                violation("log_array_differs", "Logger.get_log_as_array", "returned log differs from the rows as they were when recorded (aliasing or rewrite)")
        except Exception as e:
            violation("log_array_raises", "Logger.get_log_as_array", "%s: %s" % (type(e).__name__, e))

    ties = core.sim_ties
    nontrivial = bool(faults) or core.sim_ties_nonfifo > 0
    return {
        "violations": viol,
        "harness_error": harness_error,
        "counters": dict(counters, ties=ties, ties_nonfifo=core.sim_ties_nonfifo, events=core.sim_steps),
        "faults": faults,
        "probes": {"tie_resolved_against_fifo": core.sim_ties_nonfifo, "reentrancy_depth_ge2": int(counters["max_depth"] >= 2),
                   "rows_checked": counters["rows"], "rejected_publishes": counters["rejected"]},
        "sig": rec.signature(),
        "digest": rec.digest(),
        "sim_s": float(scn["tf"]),
        "events": core.sim_steps,
        "nontrivial": nontrivial,
    }


def sample(scn):
    return {"family": NAME, "seed": scn["seed"], "policy": scn["policy"], "tf": scn["tf"],
            "topics": scn["topics"], "n_subs": len(scn["subs"]), "nodes": [n["name"] for n in scn["nodes"]],
            "first_ops": scn["ops"][:6], "n_ops": len(scn["ops"])}


# shrinking hints -------------------------------------------------------------
LIST_KEYS = ("ops", "between_ops", "segments", "setup", "subs", "nodes", "topics")


def simplify(scn):
    """Scenario-level simplifications tried after list minimisation."""
    out = []
    if scn["policy"] != "fifo":
        out.append(dict(scn, policy="fifo"))
    if scn["tf"] > 0.05:
        tmax = max([o["t"] for o in scn["ops"]] + [0.0])
        for tf in (0.05, 0.2, 0.5, 1.0):
            if tf > tmax and tf < scn["tf"]:
                out.append(dict(scn, tf=tf))
                break
    if len(scn["init_params"]) > 1:
        out.append(dict(scn, init_params={"logger/dt": scn["init_params"].get("logger/dt", 0.005)}))
    return out
