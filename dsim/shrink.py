"""Minimisation of a failing scenario: ddmin over its lists, then scenario-level
simplifications, accepting a candidate only if the same violation class at the same
site recurs.  Pure function of (scenario, code): no randomness, no clock."""
import copy
import time


def _same(result, key):
    if result is None or result.get("harness_error"):
        return None
    for v in result["violations"]:
        if (v["prop"], v["cls"], v["site"]) == key:
            return v
    return None


def _try(mod, scn, key):
    try:
        res = mod.run(copy.deepcopy(scn))
    except Exception:
        return None
    return _same(res, key)


def ddmin_list(mod, scn, lk, key, deadline, stats):
    """Classic ddmin (complement removal) on scn[lk]."""
    items = list(scn[lk])

    def fails(cand_items):
        cand = dict(scn)
        cand[lk] = cand_items
        stats["tried"] += 1
        ok = _try(mod, cand, key) is not None
        if ok:
            stats["accepted"] += 1
        return ok

    if items and fails([]):
        items = []
    n = 2
    while len(items) >= 2 and time.monotonic() < deadline:
        size = len(items)
        bounds = [(i * size // n, (i + 1) * size // n) for i in range(n)]
        reduced = False
        for lo, hi in bounds:
            if hi <= lo:
                continue
            cand_items = items[:lo] + items[hi:]
            if fails(cand_items):
                items = cand_items
                n = max(n - 1, 2)
                reduced = True
                break
            if time.monotonic() >= deadline:
                break
        if not reduced:
            if n >= size:
                break
            n = min(size, 2 * n)
    if len(items) == 1 and time.monotonic() < deadline and fails([]):
        items = []
    out = dict(scn)
    out[lk] = items
    return out


def shrink(mod, scn, violation, budget_s=120.0):
    key = (violation["prop"], violation["cls"], violation["site"])
    deadline = time.monotonic() + budget_s
    stats = {"tried": 0, "accepted": 0}
    cur = copy.deepcopy(scn)
    # truncate the operation list at the violating time when the scenario has timed ops
    if "ops" in cur and cur["ops"] and "t" in cur["ops"][0] and violation.get("t") is not None:
        cand = dict(cur)
        cand["ops"] = [o for o in cur["ops"] if o["t"] <= violation["t"]]
        if len(cand["ops"]) < len(cur["ops"]) and _try(mod, cand, key) is not None:
            cur = cand
    changed = True
    rounds = 0
    while changed and time.monotonic() < deadline and rounds < 4:
        rounds += 1
        changed = False
        for lk in getattr(mod, "LIST_KEYS", ()):
            if lk in cur and isinstance(cur[lk], list) and cur[lk]:
                n0 = len(cur[lk])
                cur = ddmin_list(mod, cur, lk, key, deadline, stats)
                if len(cur[lk]) < n0:
                    changed = True
        progress = True
        while progress and time.monotonic() < deadline:
            progress = False
            for cand in mod.simplify(cur) if hasattr(mod, "simplify") else []:
                stats["tried"] += 1
                if _try(mod, cand, key) is not None:
                    cur = cand
                    stats["accepted"] += 1
                    progress = True
                    changed = True
                    break
    v = _try(mod, cur, key)
    if v is None:  # must not happen: every accepted step was re-run
        return copy.deepcopy(scn), violation, stats
    return cur, v, stats
