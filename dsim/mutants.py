"""Sensitivity corpus: small realistic slips, each expected to be caught by one check.
`./verif sensitivity [ids...]` copies the repository's sources to a scratch directory
outside /repo and /verif, applies one mutant, runs the matching quick check with
VERIF_REPO pointing there, expects exit 1, deletes the copy and prints the kill matrix.
A development aid, not a registered check."""
import os
import shutil
import subprocess
import sys
import tempfile
import time

from dsim import VERIF_DIR

SRC = os.environ.get("VERIF_MUT_SRC", "/repo")

U = "cyecca/sim/uros.py"
E = "cyecca/estimate/attitude/estimator.py"
MRP = "cyecca/estimate/attitude/algorithms/mrp.py"
SIMEQ = "cyecca/estimate/attitude/algorithms/sim.py"
SIMNODE = "cyecca/estimate/attitude/simulator.py"
SO3 = "cyecca/lie/group_so3.py"
SE23 = "cyecca/lie/group_se23.py"
RDD2 = "cyecca/models/rdd2.py"
LOGLIN = "cyecca/models/rdd2_loglinear.py"
UTIL = "cyecca/util.py"
SCRIPT = "scripts/rdd2_sim.py"

# id: (property, file, old, new, description)
MUTANTS = {
    "m01": ("C20", U, "            s.callback(msg)\n", "            s.callback(msg)\n            break\n", "publish stops after the first subscriber"),
    "m02": ("C20", U, "        if not isinstance(msg, self.msg_type):", "        if False and not isinstance(msg, self.msg_type):", "wrong-type messages are accepted"),
    "m03": ("C20", U, "self.data_list.append(copy.deepcopy(self.data_latest.data))", "self.data_list.append(self.data_latest.data)", "logger rows alias the latest-data record"),
    "m04": ("C20", U, "cb = lambda msg, topic=topic: self.callback(topic, msg)", "cb = lambda msg: self.callback(topic, msg)", "late-binding lambda: every topic is logged under the last topic"),
    "m05": ("C20", U, "        for s in self.core._subscribers[self.topic]:\n", "        for s in reversed(self.core._subscribers[self.topic]):\n", "delivery in reverse registration order"),
    "m06": ("C20", U, "        if self.topic not in self.core._subscribers:\n            return\n        for s in self.core._subscribers[self.topic]:\n            s.callback(msg)\n",
            "        for topic, subs in self.core._subscribers.items():\n            if topic.startswith(self.topic):\n                for s in subs:\n                    s.callback(msg)\n", "prefix match delivers to subscribers of other topics"),
    "m07": ("C20", E, "        if dt <= 0:\n            return\n", "        if dt < 0:\n            return\n", "estimator predicts with dt = 0 on a duplicated timestamp"),
    "m08": ("C20", E, "            self.t_last_accel = t\n", "", "accelerometer correction rate limit never advances"),
    "m09": ("C20", U, "            yield simpy.Timeout(self.core, self.dt.get())", "            yield simpy.Timeout(self.core, dt0)", "logger period read once (ignores logger/dt updates)"),
    "m10": ("C20", U, "        self._params.data[name] = value\n        self.pub_params.publish(self._params)\n", "        self._params.data[name] = value\n        if name.startswith(\"logger\"):\n            self.pub_params.publish(self._params)\n", "only logger parameters are broadcast"),
    "m11": ("C20", E, "        self.t_last_mag = t\n        y = msg.data[\"mag\"]", "        y = msg.data[\"mag\"]", "magnetometer correction rate limit never advances"),
    "m12": ("C20", U, "        for s in self.core._subscribers[self.topic]:\n            s.callback(msg)\n", "        if msg is getattr(self, \"_last\", None) and self.topic != \"params\":\n            return\n        self._last = msg\n        for s in self.core._subscribers[self.topic]:\n            s.callback(msg)\n", "de-duplication of a re-published message object"),
    "m20": ("C12", SO3, "        X = so3.elem(v).to_Matrix()\n        n_sq = ca.dot(v, v)\n        X_sq = X @ X\n        R = ca.SX.eye(3) + (8 * X_sq - 4 * (1 - n_sq) * X) / (1 + n_sq) ** 2\n        # return transpose, due to convention difference in book\n        return self.from_Matrix(R.T)",
            "        X = arg.to_Matrix()\n        n_sq = ca.dot(v, v)\n        X_sq = X @ X\n        R = ca.SX.eye(3) + (8 * X_sq - 4 * (1 - n_sq) * X) / (1 + n_sq) ** 2\n        # return transpose, due to convention difference in book\n        return self.from_Matrix(R.T)", "D1 re-introduced"),
    "m21": ("C12", MRP, "    ).param\n    x_accel = ca.sparsify(x_accel)", "    ).param\n    x_accel[3] = x[3]\n    x_accel = ca.sparsify(x_accel)", "D2 re-introduced (accel correction only)"),
    "m22": ("C12", SIMEQ, "[C_nb.inverse() @ (-g * e3) + w_accel * std_accel]", "[C_nb @ (-g * e3) + w_accel * std_accel]", "accelerometer rotates with the inverse attitude"),
    "m23": ("C12", E, "                    self.x = x0\n                    self.initialized = True\n", "                    self.x = x0\n", "estimator never leaves the initialisation gate"),
    "m25": ("C12", MRP, "    r_mag = -ca.atan2(y_n[1], y_n[0]) + mag_decl", "    r_mag = -ca.atan2(y_n[1], y_n[0]) - mag_decl", "declination sign in the heading residual"),
    "m30": ("C11", MRP, "    x_accel = ca.if_else(accel_ret == 0, x_accel, x)\n", "", "rejected accelerometer correction still writes the state"),
    "m31": ("C11", MRP, "    W_mag = ca.if_else(mag_ret == 0, W_mag, W)\n", "", "rejected magnetometer correction still writes the covariance"),
    "m32": ("C11", UTIL, "    return ca.simplify(y + (k1 + 2 * k2 + 2 * k3 + k4) / 6)", "    return ca.simplify(y + (k1 + 2 * k2 + 2 * k3 + k4) / 6 + h * (k4 - k1) * 1e-3)", "RK4 loses its order (second-order term of size 1e-3)"),
    "m33": ("C11", MRP, "ca.fabs(ca.norm_2(y_b) - g) > 1.0, 1, 0", "ca.fabs(ca.norm_2(y_b) - g) > 10.0, 1, 0", "gross accelerometer magnitudes accepted"),
    "m34": ("C11", SO3, "        param = ca.if_else(ca.dot(param, param) > 1, shadow_param, param)", "        param = ca.if_else(ca.dot(param, param) > 1.1, shadow_param, param)", "shadow switch late: MRP norm exceeds 1"),
    "m35": ("C11", UTIL, "    Wp = B_R[n_y:, n_y:]\n", "    Wp = B_R[n_y:, n_y:] * 1.01\n", "corrected covariance inflated (P+ > P for weak measurements)"),
    "m36": ("C11", MRP, "    n2_b = so3.elem(-mag_decl * n3_b).exp(SO3Mrp).to_Matrix() @ n2_b", "    n2_b = so3.elem(mag_decl * n3_b).exp(SO3Mrp).to_Matrix() @ n2_b", "declination sign in the initialiser"),
    "m40": ("C15", RDD2, "    psi_sp1 = ca.remainder(psi_sp1, 2 * ca.pi)", "    psi_sp1 = ca.fmod(psi_sp1, 2 * ca.pi)", "fmod instead of remainder: yaw set-point leaves [-pi, pi]"),
    "m41": ("C15", RDD2, "    i1 = saturatem(i0 + e1 * dt, -i_max, i_max)", "    i1 = i0 + e1 * dt", "integrator clamp removed"),
    "m42": ("C15", LOGLIN, "    p_norm_max = 0.3 * m * g", "    p_norm_max = 0.5 * m * g", "log-linear feedback bound 50 % of weight"),
    "m43": ("C15", RDD2, "    e = ca.if_else(e_norm > e_max, 2 * e / e_norm, e)", "    e = ca.if_else(e_norm > e_max + 1, 2 * e / e_norm, e)", "leash engages at 3 m"),
    "m44": ("C15", RDD2, "    pw_sp1 = ca.if_else(reset_position, pw, pw_sp + vw_sp * dt)", "    pw_sp1 = ca.if_else(reset_position, pw + vw_sp * dt, pw_sp + vw_sp * dt)", "reset leaves the set-point one velocity step off the vehicle"),
    "m45": ("C15", SO3, "        q = ca.if_else(q[0] < 0, -q, q)\n", "", "D3 re-introduced"),
    "m46": ("C15", SCRIPT, "        self.i0 = i1\n", "        self.i0 = i1 * 1.5\n", "script scales the fed-back integrator state"),
    "m47": ("C15", RDD2, "    z_i_2 = saturatem(z_i_2, -ca.vertcat(z_integral_max), ca.vertcat(z_integral_max))", "    z_i_2 = saturatem(z_i_2, -ca.vertcat(2 * z_integral_max), ca.vertcat(z_integral_max))", "height integrator lower clamp doubled"),
    "m48": ("C15", RDD2, "            rollpitch_max * deg2rad * input_aetr[1],\n            rollpitch_max * deg2rad * input_aetr[0],", "            rollpitch_max * deg2rad * input_aetr[1],\n            rollpitch_max * deg2rad * ca.sin(input_aetr[0]),", "auto-level roll command not linear in the stick"),
    "m49": ("C15", LOGLIN, "    omega = so3.elem(e.param).left_jacobian() @ ca.diag(kp) @ e.param  # elementwise", "    omega = so3.elem(e.param).right_jacobian() @ ca.diag(kp) @ e.param  # elementwise", "right instead of left Jacobian in the so(3) law"),
    "m51": ("C17", SCRIPT, "        k_p_att = np.array([5, 5, 2], dtype=float)", "        k_p_att = np.array([5, 5, -2], dtype=float)", "yaw attitude gain sign"),
    "m52": ("C17", SCRIPT, "        kd = np.array([0.1, 0.1, 0], dtype=float)", "        kd = np.array([-0.1, 0.1, 0], dtype=float)", "roll rate derivative gain sign"),
    "m53": ("C17", LOGLIN, "kp_pos = 0.5  # position proportional gain", "kp_pos = -0.5  # position proportional gain", "log-linear position gain sign"),
    "m54": ("C17", RDD2, "    omega = ca.sqrt(Fp_sum / Ct)\n", "    omega = ca.sqrt((Fp_moment + Fp_thrust) / Ct)\n", "allocator returns the unsaturated sum"),
    "m60": ("C08", SE23, "            + AB / 2\n", "            + AB / 3\n", "AB/3 in the N block"),
    "m61": ("C08", SE23, "        Pr = self.calculate_N(r, -B)", "        Pr = self.calculate_N(r, B)", "sign of B in the right factor"),
    "m62": ("C08", SE23, "            + Omega @ Omega @ A @ (C2 * I + C3 * B)\n", "            + Omega @ Omega @ A @ (C2 * I + C2 * B / 4)\n", "wrong series coefficient for the second-order position term"),
    "m63": ("C08", RDD2, "    r = lie.se23.elem(ca.vertcat(0, 0, 0, 0, 0, -g, 0, 0, 0))", "    r = lie.se23.elem(ca.vertcat(0, 0, -g * dt / 2, 0, 0, -g, 0, 0, 0))", "gravity also injected as a velocity-like term"),
}


def make_copy():
    d = tempfile.mkdtemp(prefix="cyecca-mut-", dir="/var/tmp")
    for sub in ("cyecca", "scripts"):
        shutil.copytree(os.path.join(SRC, sub), os.path.join(d, sub), ignore=shutil.ignore_patterns("__pycache__", "*.pyc"))
    return d


def apply(d, mid):
    prop, rel, old, new, desc = MUTANTS[mid]
    p = os.path.join(d, rel)
    s = open(p).read()
    if s.count(old) != 1:
        raise RuntimeError("%s: pattern occurs %d times in %s" % (mid, s.count(old), rel))
    s = s.replace(old, new)
    if mid == "m09":
        s = s.replace("    def run(self):\n        while True:\n", "    def run(self):\n        dt0 = self.dt.get()\n        while True:\n")
    open(p, "w").write(s)


def write_patches():
    out = os.path.join(VERIF_DIR, "mutants")
    os.makedirs(out, exist_ok=True)
    for mid in sorted(MUTANTS):
        d = make_copy()
        try:
            apply(d, mid)
            rel = MUTANTS[mid][1]
            p = subprocess.run(["diff", "-u", "--label", "a/" + rel, "--label", "b/" + rel, os.path.join(SRC, rel), os.path.join(d, rel)], capture_output=True, text=True)
            with open(os.path.join(out, "%s-%s.patch" % (mid, MUTANTS[mid][0])), "w") as f:
                f.write("# %s: expected to break %s - %s\n" % (mid, MUTANTS[mid][0], MUTANTS[mid][4]))
                f.write(p.stdout)
        finally:
            shutil.rmtree(d, ignore_errors=True)


def sensitivity(ids=None, tests=False):
    ids = ids or sorted(MUTANTS)
    rows = []
    for mid in ids:
        prop = MUTANTS[mid][0]
        d = make_copy()
        t0 = time.time()
        try:
            apply(d, mid)
            env = dict(os.environ, VERIF_REPO=d, VERIF_SHRINK_S="20", VERIF_NO_DETCHECK="1", VERIF_EVIDENCE_DIR=os.path.join(d, "evidence"), VERIF_REPLAY_DIR=os.path.join(d, "replays"))
            p = subprocess.run([sys.executable, os.path.join(VERIF_DIR, "verif"), "check", prop, "--tier", "quick"], env=env, capture_output=True, text=True, timeout=3600)
            lines = [l for l in p.stdout.splitlines() if l.startswith("  violation class=") or l.startswith("HARNESS")]
            status = {0: "MISSED", 1: "killed", 2: "harness-error"}.get(p.returncode, "exit %d" % p.returncode)
            tres = ""
            if tests:
                q = subprocess.run(["/venv/bin/python", "-m", "pytest", "-q", "-p", "no:cacheprovider", "--timeout=900", "--continue-on-collection-errors", "-x", "--deselect",
                                    "tests/estimate/attitude/test_attitude.py::Test_Attitude::test_generate_code", "--deselect", "tests/estimate/attitude/test_attitude.py::Test_Attitude::test_replay",
                                    os.path.join(SRC, "tests")], cwd=d, env=dict(os.environ, PYTHONPATH=d), capture_output=True, text=True, timeout=3600)
                tres = " tests:" + (q.stdout.strip().splitlines()[-1] if q.stdout.strip() else "?")
            rows.append((mid, prop, status, time.time() - t0, MUTANTS[mid][4], "; ".join(l.strip() for l in lines[:3]) + tres))
            print("%s %s %-13s %5.0fs  %s  [%s]" % rows[-1], flush=True)
        finally:
            shutil.rmtree(d, ignore_errors=True)
    killed = sum(1 for r in rows if r[2] == "killed")
    print("SENSITIVITY %d/%d killed" % (killed, len(rows)))
    return 0 if killed == len(rows) else 1


def eval_patch(patch, prop, tier="quick", extra_env=None):
    """Apply an external unified diff (e.g. a seeded change) to a scratch copy and run the check."""
    d = make_copy()
    t0 = time.time()
    try:
        p = subprocess.run(["patch", "-p1", "-s", "-i", os.path.abspath(patch)], cwd=d, capture_output=True, text=True)
        if p.returncode != 0:
            print("PATCH-FAILED %s: %s" % (patch, (p.stdout + p.stderr)[-400:]))
            return 2
        env = dict(os.environ, VERIF_REPO=d, VERIF_SHRINK_S=os.environ.get("VERIF_SHRINK_S", "30"), VERIF_NO_DETCHECK="1",
                   VERIF_EVIDENCE_DIR=os.path.join(d, "evidence"), VERIF_REPLAY_DIR=os.path.join(d, "replays"))
        env.update(extra_env or {})
        q = subprocess.run([sys.executable, os.path.join(VERIF_DIR, "verif"), "check", prop, "--tier", tier], env=env, capture_output=True, text=True, timeout=7200)
        lines = [l.strip() for l in q.stdout.splitlines() if l.startswith("  violation class=") or l.startswith("HARNESS") or l.startswith("  class=")]
        status = {0: "MISSED", 1: "killed", 2: "harness-error"}.get(q.returncode, "exit %d" % q.returncode)
        print("%s %s %s %.0fs [%s]" % (patch, prop, status, time.time() - t0, "; ".join(lines[:4])), flush=True)
        eval_patch.last = (status, [l for l in lines if l.startswith("violation class=")])
        return q.returncode
    finally:
        shutil.rmtree(d, ignore_errors=True)


def report(path=None):
    """Run every own mutant and every seeded change; write the kill matrix (markdown) and record
    `detected_by` in each seeded meta.json."""
    import glob
    import json
    import re

    path = path or os.path.join(VERIF_DIR, "KILLMATRIX.md")
    rows = []
    for mid in sorted(MUTANTS):
        prop = MUTANTS[mid][0]
        d = make_copy()
        t0 = time.time()
        try:
            apply(d, mid)
            env = dict(os.environ, VERIF_REPO=d, VERIF_SHRINK_S="10", VERIF_NO_DETCHECK="1", VERIF_EVIDENCE_DIR=os.path.join(d, "evidence"), VERIF_REPLAY_DIR=os.path.join(d, "replays"))
            p = subprocess.run([sys.executable, os.path.join(VERIF_DIR, "verif"), "check", prop, "--tier", "quick"], env=env, capture_output=True, text=True, timeout=3600)
            cls = sorted(set(re.findall(r"violation class=(\S+)", p.stdout)))
            status = {0: "MISSED", 1: "killed", 2: "harness-error"}.get(p.returncode, "exit %d" % p.returncode)
            rows.append(("own", mid, prop, status, MUTANTS[mid][4], ", ".join(cls[:4])))
            print(rows[-1], flush=True)
        finally:
            shutil.rmtree(d, ignore_errors=True)
    for mp in sorted(glob.glob(os.path.join(VERIF_DIR, "seeded", "*", "meta.json"))):
        meta = json.load(open(mp))
        patch = os.path.join(os.path.dirname(mp), "patch.diff")
        rc = eval_patch(patch, meta["property"])
        status, lines = getattr(eval_patch, "last", ("?", []))
        cls = sorted(set(re.findall(r"violation class=(\S+)", " ".join(lines))))
        meta["detected_by"] = {"check": "./verif check %s --tier quick" % meta["property"], "result": status, "violation_classes": cls}
        json.dump(meta, open(mp, "w"), indent=1)
        first = ""
        nf = os.path.join(os.path.dirname(mp), "notes.md")
        rows.append(("seeded", meta["id"], meta["property"], status, ", ".join(meta.get("files_touched", [])), ", ".join(cls[:4])))
        print(rows[-1], flush=True)
    with open(path, "w") as f:
        f.write("# Kill matrix (quick tier, generated by `./verif sensitivity --report`)\n\n")
        f.write("| corpus | id | property | result | change | violation classes reported |\n|---|---|---|---|---|---|\n")
        for r in rows:
            f.write("| %s | %s | %s | %s | %s | %s |\n" % r)
        k = sum(1 for r in rows if r[3] == "killed")
        f.write("\n%d of %d killed.\n" % (k, len(rows)))
    return 0
