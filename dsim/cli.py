import argparse
import json
import os
import sys


def main(argv):
    ap = argparse.ArgumentParser(prog="verif")
    sub = ap.add_subparsers(dest="cmd", required=True)
    c = sub.add_parser("check")
    c.add_argument("prop")
    c.add_argument("--tier", default=os.environ.get("VERIF_TIER", "quick"), choices=["quick", "thorough"])
    c.add_argument("--budget", type=float, default=None)
    r = sub.add_parser("replay")
    r.add_argument("path")
    d = sub.add_parser("digest")
    d.add_argument("family")
    d.add_argument("seed", type=int)
    d.add_argument("tier", nargs="?", default="quick")
    o = sub.add_parser("run")
    o.add_argument("family")
    o.add_argument("seed", type=int)
    o.add_argument("tier", nargs="?", default="quick")
    o.add_argument("--scenario", action="store_true")
    ds = sub.add_parser("digests")
    ds.add_argument("family")
    ds.add_argument("lo", type=int)
    ds.add_argument("hi", type=int)
    ds.add_argument("workers", type=int)
    s = sub.add_parser("selftest")
    s.add_argument("--seeds", type=int, default=64)
    s.add_argument("--families", default=None)
    sv = sub.add_parser("sensitivity")
    sv.add_argument("ids", nargs="*")
    sv.add_argument("--tests", action="store_true")
    sv.add_argument("--write-patches", action="store_true")
    sv.add_argument("--patch", default=None)
    sv.add_argument("--prop", default=None)
    sv.add_argument("--tier", default="quick")
    sv.add_argument("--report", action="store_true")
    a = ap.parse_args(argv)

    from dsim import runner

    if a.cmd == "check":
        from dsim.checks import CHECKS

        if a.prop not in CHECKS:
            print("no check for %s" % a.prop)
            return 2
        seed = int(os.environ.get("VERIF_SEED", "0"))
        return runner.run_check(CHECKS[a.prop], a.tier, seed, a.budget)
    if a.cmd == "replay":
        return runner.replay(a.path)
    if a.cmd == "digest":
        scn, res = runner.run_one(a.family, a.seed, a.tier)
        if res.get("harness_error"):
            print("HARNESS-ERROR", res["harness_error"])
            return 2
        print("DIGEST %s" % res["digest"])
        return 0
    if a.cmd == "run":
        scn, res = runner.run_one(a.family, a.seed, a.tier)
        if a.scenario:
            print(json.dumps(scn, indent=1, default=runner._jsonable))
        print(json.dumps(res, indent=1, default=runner._jsonable))
        return 1 if res["violations"] else (2 if res.get("harness_error") else 0)
    if a.cmd == "digests":
        from dsim.selftest import digests_main

        return digests_main(a.family, a.lo, a.hi, a.workers)
    if a.cmd == "sensitivity":
        from dsim import mutants

        if a.write_patches:
            mutants.write_patches()
            return 0
        if a.patch:
            return mutants.eval_patch(a.patch, a.prop, a.tier)
        if a.report:
            return mutants.report()
        return mutants.sensitivity(a.ids or None, a.tests)
    if a.cmd == "selftest":
        from dsim.selftest import selftest

        return selftest(a.seeds, a.families.split(",") if a.families else None)
    return 2
