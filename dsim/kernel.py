"""Deterministic simulation kernel.

The repository's own bus (`cyecca.sim.uros.Core`) *is* a simpy environment, i.e. a
virtual-time discrete-event kernel.  This module adds what simpy does not give:

* one integer decides everything: independent PRNG streams derived from a seed
* tie-breaking among simultaneous events of equal priority is a seeded decision
* absolute-time scheduling (so generated operations can tie exactly)
* a global event sequence number, a step budget and an invariant hook
* a recorder whose digest is the determinism witness of a run

Nothing in here reads a real clock or draws from a global PRNG.
"""
import hashlib
import random
import struct
from heapq import heappush

import simpy
from simpy.core import EmptySchedule
from simpy.events import NORMAL, Event


def stream(seed, name):
    """Independent PRNG stream `name` of run `seed` (adding draws to one stream
    never perturbs another)."""
    h = hashlib.sha256(("%d/%s" % (int(seed), name)).encode()).digest()
    return random.Random(int.from_bytes(h[:16], "big"))


class BudgetExceeded(Exception):
    """Harness outcome (never a violation)."""


class InvariantViolated(Exception):
    def __init__(self, record):
        super().__init__(record.get("msg", "invariant"))
        self.record = record


class Recorder:
    """Append-only event log with a running SHA-256 digest.

    Floats are hashed by their IEEE bytes, so two runs have the same digest iff
    every recorded value is bit-identical.  `keep` bounds the stored list (the
    digest always covers everything)."""

    def __init__(self, keep=200000):
        self.gseq = 0
        self.events = []
        self.keep = keep
        self._h = hashlib.sha256()
        self.sig = hashlib.sha1()  # interleaving signature: kinds/tags only

    def _feed(self, x):
        h = self._h
        if isinstance(x, float):
            h.update(b"f" + struct.pack("<d", x))
        elif isinstance(x, (bytes, bytearray)):
            h.update(b"b" + bytes(x))
        elif isinstance(x, (list, tuple)):
            h.update(b"(")
            for y in x:
                self._feed(y)
            h.update(b")")
        elif isinstance(x, dict):
            h.update(b"{")
            for k in sorted(x):
                self._feed(k)
                self._feed(x[k])
            h.update(b"}")
        elif hasattr(x, "tobytes"):
            h.update(b"n" + x.tobytes())
        else:
            h.update(b"r" + repr(x).encode())

    def rec(self, now, kind, tag=None, **fields):
        self.gseq += 1
        ev = (self.gseq, float(now), kind, tag, fields)
        self._feed(ev)
        self.sig.update(("%s/%s;" % (kind, tag)).encode())
        if len(self.events) < self.keep:
            self.events.append(ev)
        return self.gseq

    def digest(self):
        return self._h.hexdigest()

    def signature(self):
        return self.sig.hexdigest()


class At(Event):
    """An event that fires at an absolute simulated time."""

    def __init__(self, env, t_abs, priority=NORMAL):
        super().__init__(env)
        self._ok = True
        self._value = None
        env.schedule_at(self, t_abs, priority)


class SimMixin:
    """Mix into a simpy.Environment subclass (before it in the MRO)."""

    def sim_init(self, policy="fifo", sched_rng=None, budget=2000000, recorder=None):
        self.sim_policy = policy
        self.sim_rng = sched_rng or random.Random(0)
        self.sim_budget = budget
        self.sim_steps = 0
        self.sim_ties = 0
        self.sim_ties_nonfifo = 0
        self.sim_invariant = None
        self.recorder = recorder or Recorder()

    # -- scheduling ---------------------------------------------------------
    def _sim_key(self):
        eid = next(self._eid)
        pol = getattr(self, "sim_policy", "fifo")
        if pol == "fifo":
            return (0, eid)
        if pol == "lifo":
            return (-eid, eid)
        return (self.sim_rng.random(), eid)

    def schedule(self, event, priority=NORMAL, delay=0):
        heappush(self._queue, (self._now + delay, priority, self._sim_key(), event))

    def schedule_at(self, event, t_abs, priority=NORMAL):
        if t_abs < self._now:
            raise ValueError("schedule_at in the past")
        heappush(self._queue, (t_abs, priority, self._sim_key(), event))

    def at(self, t_abs):
        return At(self, t_abs)

    # -- stepping -----------------------------------------------------------
    def step(self):
        q = self._queue
        if not q:
            raise EmptySchedule()
        if hasattr(self, "sim_steps"):
            head = q[0]
            # a tie: another queued event with the same (time, priority)
            tied = [e for e in q if e[0] == head[0] and e[1] == head[1]]
            if len(tied) > 1:
                self.sim_ties += 1
                if head[2][1] != min(e[2][1] for e in tied):
                    self.sim_ties_nonfifo += 1
            self.sim_steps += 1
            if self.sim_steps > self.sim_budget:
                raise BudgetExceeded("step budget %d exceeded" % self.sim_budget)
        super().step()
        inv = getattr(self, "sim_invariant", None)
        if inv is not None:
            inv()


class SimEnv(SimMixin, simpy.Environment):
    def __init__(self, policy="fifo", sched_rng=None, budget=2000000, recorder=None):
        super().__init__()
        self.sim_init(policy, sched_rng, budget, recorder)


_simcore_cls = None


def make_simcore_class():
    """SimCore subclasses the *current* cyecca.sim.uros.Core (imported lazily so
    VERIF_REPO can redirect the import first)."""
    global _simcore_cls
    if _simcore_cls is None:
        from cyecca.sim import uros

        class SimCore(SimMixin, uros.Core):
            def __init__(self, *args, **kwargs):
                super().__init__(*args, **kwargs)
                if not hasattr(self, "sim_steps"):
                    self.sim_init()

        _simcore_cls = SimCore
    return _simcore_cls
