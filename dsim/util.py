"""Small helpers shared by scenarios."""
import os
import traceback

from dsim import REPO, VERIF_DIR


def exception_origin(exc):
    """'repo' if the innermost frame that is neither library nor harness code lies in
    the repository under test, 'harness' if the exception was raised by harness code,
    'lib' otherwise.  simpy re-raises a process failure as a copy whose __cause__ is the
    original, so causes are followed first."""
    seen = 0
    while exc.__cause__ is not None and seen < 10:
        exc = exc.__cause__
        seen += 1
    frames = traceback.extract_tb(exc.__traceback__)
    for fr in reversed(frames):
        fn = os.path.abspath(fr.filename)
        if fn.startswith(REPO + os.sep):
            return "repo"
        if fn.startswith(VERIF_DIR + os.sep):
            return "harness"
    return "lib"
