"""What each registered check runs: scenario families, run counts, level, rule."""

NO_TARGET = ["crash_restart (no durable state)", "disk_error / torn_write / full_disk (no storage)",
             "partition / heal (no network)", "alloc_failure / syscall_failure (no such path in the anchored code)"]

CHECKS = {
    "C20": {
        "prop": "C20",
        "level": "fault_enumeration",
        "families": [("bus_model", 1500, 4), ("driven_estimator", 96, 1)],
        "rule": "one run = one seeded scenario (topics, subscribers in generated registration order, parameter nodes, timed "
                "publish / set_param / wrong-type / late-registration operations from 1-4 actors, tie-break policy) executed on the "
                "real uros bus and compared with a sequential reference model; distinct = distinct interleaving signature (SHA-1 of "
                "the sequence of (event kind, topic) with times and values erased); non-trivial = at least one fault kind fired or "
                "one tie resolved against FIFO order",
        "real": ["cyecca.sim.uros.Core/Publisher/Subscriber/Param/Logger", "cyecca.sim.msgs", "simpy event queue (tie-break seeded)"],
        "stub": ["scripted publisher actors", "recording subscribers", "parameter follower nodes (same idiom as repo nodes)"],
        "assumptions": ["single-process discrete-event execution as in the repository; launch_monte_carlo_sim's real process pool is not simulated",
                        "Param.set() is not exercised (the property speaks of values set on the core)"],
        "faults_na": NO_TARGET,
        "run_timeout": 300,
    },
    "C12": {
        "prop": "C12",
        "level": "exploration",
        "families": [("packaged_loop", 32, 1)],
        "rule": "one run = launch.launch_sim (real Simulator + AttitudeEstimator('mrp') + Logger + Core) for 30-40 simulated seconds, noise off, "
                "with seeded true initial attitude (whole unit ball) and gyro bias (+-0.1 rad/s), initialise on/off, field inclination / "
                "declination / strength, sim / imu / mag / logger rates, correction rate limits and tie-break policy; invariants on every "
                "imu / mag / estimate message, convergence oracle on the returned log; distinct = distinct (interleaving signature, policy, "
                "initialise flag); every run is non-trivial (time-varying rates up to 10 rad/s, >= 6000 estimator steps)",
        "real": ["launch.launch_sim", "estimate.attitude.simulator.Simulator", "estimate.attitude.estimator.AttitudeEstimator", "uros.Core (as SimCore) / Logger",
                 "algorithms.eqs()['sim'] and ['mrp']"],
        "stub": ["none (spy subscribers only observe)"],
        "assumptions": ["'a few hundredths of a radian' is read as <= 0.05 rad for all t >= 20 s; bias 'approaches' = every component within 0.02 rad/s at the end",
                        "supported geometry: |inclination| <= 1.2 rad, |declination| <= 0.5 rad, g = 9.8 (the initialiser's gate is hard-wired to 9.8 +- 1)",
                        "sensor noise off, no message faults: the property states the packaged loop without noise"],
        "faults_na": NO_TARGET + ["msg_drop/dup/reorder, sensor glitches: outside what C12 states (verdict scope rule, DESIGN 2.4)"],
        "run_timeout": 900,
    },
    "C11": {
        "prop": "C11",
        "level": "fault_enumeration",
        "families": [("driven_estimator", 192, 1)],
        "rule": "one run = the real AttitudeEstimator('mrp') node on the real bus for 2-10 simulated seconds, driven by a stub sensor peer whose "
                "explicit timed message list carries seeded message faults (drop, dup, reorder, delay, burst, gap, timestamp jumps) and value "
                "faults (scale, offset, spike, stuck, zero norm, vertical field, huge rate), from a default or randomised in-domain (x, W); "
                "every initialize / predict / correct_accel / correct_mag call the node makes is judged by a monitor when its inputs are in "
                "the property's domain; distinct = distinct interleaving signature of (message kind, call, error code) sequence; non-trivial "
                "= at least one fault fired or a tie was resolved against FIFO",
        "real": ["estimate.attitude.estimator.AttitudeEstimator", "algorithms.eqs()['mrp'] (initialize, predict, correct_accel, correct_mag)", "uros.Core (SimCore) / Logger"],
        "stub": ["sensor peer (true attitude integrated with numpy quaternions; emits Imu/Mag with faults)"],
        "assumptions": ["partial claim: the convergence *order* of prediction is checked as the bound err <= 0.015*theta^5 + 1e-12 (measured constant 1/720), not by halving studies",
                        "inputs judged are those reached by simulated histories (plus randomised initial x, W); domain gating per the property's quantifier",
                        "auxiliary outputs (beta, residuals) are not judged; the node's own check_nan on them is a probe"],
        "faults_na": NO_TARGET,
        "run_timeout": 600,
    },
}
