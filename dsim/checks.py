"""What each registered check runs: scenario families, run counts, level, rule."""

NO_TARGET = ["crash_restart (no durable state)", "disk_error / torn_write / full_disk (no storage)",
             "partition / heal (no network)", "alloc_failure / syscall_failure (no such path in the anchored code)"]

CHECKS = {
    "C20": {
        "prop": "C20",
        "level": "fault_enumeration",
        "families": [("bus_model", 1500, 4), ("driven_estimator", 96, 1)],
        "rule": "one run = one seeded scenario (topics, subscribers in generated registration order, parameter nodes, timed "
                "publish / set_param / wrong-type / late-registration operations from 1-4 actors, tie-break policy) executed on the "
                "real uros bus and compared with a sequential reference model; distinct = distinct interleaving signature (SHA-1 of "
                "the sequence of (event kind, topic) with times and values erased); non-trivial = at least one fault kind fired or "
                "one tie resolved against FIFO order",
        "real": ["cyecca.sim.uros.Core/Publisher/Subscriber/Param/Logger", "cyecca.sim.msgs", "simpy event queue (tie-break seeded)"],
        "stub": ["scripted publisher actors", "recording subscribers", "parameter follower nodes (same idiom as repo nodes)"],
        "assumptions": ["single-process discrete-event execution as in the repository; launch_monte_carlo_sim's real process pool is not simulated",
                        "Param.set() is not exercised (the property speaks of values set on the core)"],
        "faults_na": NO_TARGET,
        "run_timeout": 300,
    },
    "C12": {
        "prop": "C12",
        "level": "exploration",
        "families": [("packaged_loop", 56, 1)],
        "rule": "one run = launch.launch_sim (real Simulator + AttitudeEstimator('mrp') + Logger + Core) for 30-40 simulated seconds, noise off, "
                "with seeded true initial attitude (whole unit ball) and gyro bias (+-0.1 rad/s), initialise on/off, field inclination (+-0.9) / "
                "declination (+-0.5) / strength, configured gravity, sim / imu / mag / logger rates (sensor periods below the simulation step "
                "included), correction rate limits and tie-break policy; invariants on every "
                "imu / mag / estimate message, convergence oracle on the returned log; distinct = distinct (interleaving signature, policy, "
                "initialise flag); every run is non-trivial (time-varying rates up to 10 rad/s, >= 6000 estimator steps)",
        "real": ["launch.launch_sim", "estimate.attitude.simulator.Simulator", "estimate.attitude.estimator.AttitudeEstimator", "uros.Core (as SimCore) / Logger",
                 "algorithms.eqs()['sim'] and ['mrp']"],
        "stub": ["none (spy subscribers only observe)"],
        "assumptions": ["'a few hundredths of a radian' is read as <= 0.05 rad for all t >= 20 s; bias 'approaches' = every component within 0.02 rad/s at the end",
                        "supported domain (calibrated, DESIGN 3/C12): |inclination| <= 0.9 rad, |declination| <= 0.5 rad, g in [9.3, 10.3], IMU >= 200 Hz, accelerometer corrected at least as often as the magnetometer",
                        "sensor noise off, no message faults: the property states the packaged loop without noise"],
        "faults_na": NO_TARGET + ["msg_drop/dup/reorder, sensor glitches: outside what C12 states (verdict scope rule, DESIGN 2.4)"],
        "run_timeout": 900,
    },
    "C11": {
        "prop": "C11",
        "level": "fault_enumeration",
        "families": [("driven_estimator", 256, 1)],
        "rule": "one run = the real AttitudeEstimator('mrp') node on the real bus for 2-10 simulated seconds, driven by a stub sensor peer whose "
                "explicit timed message list carries seeded message faults (drop, dup, reorder, delay, burst, gap, timestamp jumps) and value "
                "faults (scale, offset, spike, stuck, zero norm, vertical field, huge rate), from a default or randomised in-domain (x, W); "
                "every initialize / predict / correct_accel / correct_mag call the node makes is judged by a monitor when its inputs are in "
                "the property's domain; distinct = distinct interleaving signature of (message kind, call, error code) sequence; non-trivial "
                "= at least one fault fired or a tie was resolved against FIFO",
        "real": ["estimate.attitude.estimator.AttitudeEstimator", "algorithms.eqs()['mrp'] (initialize, predict, correct_accel, correct_mag)", "uros.Core (SimCore) / Logger"],
        "stub": ["sensor peer (true attitude integrated with numpy quaternions; emits Imu/Mag with faults)"],
        "assumptions": ["partial claim: the convergence *order* of prediction is checked as the bound err <= 0.015*theta^5 + 1e-12 (measured constant 1/720), not by halving studies",
                        "inputs judged are those reached by simulated histories (plus randomised initial x, W); domain gating per the property's quantifier",
                        "auxiliary outputs (beta, residuals) are not judged; the node's own check_nan on them is a probe"],
        "faults_na": NO_TARGET,
        "run_timeout": 600,
    },
    "C15": {
        "prop": "C15",
        "level": "fault_enumeration",
        "families": [("controller_recursion", 64, 1)],
        "rule": "one run = the unmodified scripts/rdd2_sim.py node stepped for 400-3000 ticks by a simulated timer (jitter, missed, long, "
                "duplicate ticks) while a simulated pilot moves the sticks and switches input / control modes and a glitch process acts "
                "between plant and controller (quaternion sign flips, attitude / position jumps, stale state, forced position reset), with "
                "per-run randomised gains and limits; every call of the nine controller functions is judged at the call boundary, the "
                "memory fed back by the node is checked across steps; distinct = distinct interleaving signature (sequence of function "
                "calls and ticks); non-trivial = at least one fault / pilot operation / knob randomisation fired",
        "real": ["scripts/rdd2_sim.py Simulator (timer_callback, update_controller, joy_callback, controller memory)", "models.rdd2 / rdd2_loglinear controller functions",
                 "models.quadrotor plant + CVODES"],
        "stub": ["rclpy / geometry_msgs / nav_msgs / sensor_msgs / rosgraph_msgs / synapse_msgs / tf2_ros (in-process fakes)", "pilot", "glitch injector", "timer"],
        "assumptions": ["time steps are >= 1 ms (dt = 0 is not a time step)", "bezier mode is not driven (needs trajectory messages)",
                        "the choice between theta and theta - 2 pi for the commanded rotation is not demanded, only the zero set and the reached attitude",
                        "within 1e-3 rad of a 180 degree error the law is not judged (ill-conditioned)"],
        "faults_na": NO_TARGET,
        "run_timeout": 900,
    },
    "C17": {
        "prop": "C17",
        "level": "exploration",
        "families": [("hover_convergence", 56, 1)],
        "rule": "one run = the unmodified scripts/rdd2_sim.py node (plant, cascade, gains, allocation as wired in the script) at its nominal 100 Hz "
                "on the simulated clock for 30 s (either cascade) from a seeded initial condition: position "
                "within 3 m of the commanded hover point, commanded heading anywhere in (-pi, pi], tilt <= 60 deg about a random axis, initial heading within 150 deg of the commanded one, either quaternion sign, body "
                "velocity and rates in +-1.5, rotors at hover speed or at rest; invariants every tick (finite state, motor commands in "
                "[0, sqrt(F_max/CT)]), bounded-liveness oracle on the late part of the trajectory (converged to the node's own hover point, which must be at rest and within 15 m of the commanded one); 30 % of runs draw the tilt from 45-60 deg; distinct = distinct initial-condition cell "
                "(mode, distance, tilt bucket, speed, rate, rotors, quaternion sign, leash / ground contact / saturation reached); every run is "
                "non-trivial",
        "real": ["scripts/rdd2_sim.py Simulator", "models.quadrotor (plant, CVODES)", "models.rdd2 / rdd2_loglinear controllers and allocator", "sensor noise as the script has it (seeded)"],
        "stub": ["rclpy / *_msgs / tf2_ros (in-process fakes)", "timer on the simulated clock", "pilot (mode buttons, centred sticks)"],
        "assumptions": ["convergence target is the node's own position set-point (the script's 2 m leash drags it while the vehicle is far away); it must come to rest",
                        "'a few centimetres' = 0.05 m, tilt 0.02 rad, rates 0.05 rad/s, for all t >= 20 s / 25 s (measured: <= 2 mm, 2e-5 rad from 15 s on)",
                        "fault-free configuration only: the property states none"],
        "faults_na": NO_TARGET + ["tick jitter / sensor glitches: outside what C17 states (they are verdict-bearing for C15)"],
        "run_timeout": 900,
    },
    "C08": {
        "prop": "C08",
        "level": "exploration",
        "families": [("ins_bench", 192, 3), ("ins_flight", 16, 1)],
        "rule": "ins_bench: two INS replicas consume the same seeded piecewise-constant IMU segments (|w| from 0 exactly to 50 rad/s on both "
                "sides of the small-angle switch, |a| to 100 m/s^2, g in {0, 1.62, 9.8, 9.80665, 24.8}, durations 1 ms - 10 s) on different "
                "seeded tick schedules (duplicate ticks with dt = 0, missed ticks, 1e-9 first steps); every step is compared with the exact "
                "flow in 40-digit arithmetic, both replicas with each other and with the exact flow at every segment boundary.  ins_flight: the "
                "real rdd2_sim node with use_estimator = True under tick jitter / missed / long / short ticks, every INS call compared with the "
                "exact flow and with a seeded split of the same step.  distinct = distinct interleaving signature of the tick schedule; "
                "non-trivial = more steps than segment boundaries (bench) / at least one timing fault (flight)",
        "real": ["models.rdd2.derive_strapdown_ins_propagation (lie.SE23Quat.exp_mixed / calculate_N / SO3Quat.exp)", "scripts/rdd2_sim.py update_estimator wiring (ins_flight)"],
        "stub": ["IMU segment source and the two replica timers (ins_bench)", "ROS fakes and timer (ins_flight)"],
        "assumptions": ["weakest fit of the family (stated in DESIGN): the step function is pure; what simulation adds is the sequence - composition over "
                        "arbitrary tick schedules and error growth over histories", "tolerance 5e-13 * scale per step (worst observed ~2e-16)"],
        "faults_na": NO_TARGET,
        "run_timeout": 900,
    },
}
