"""Independent reference mathematics (numpy / mpmath only; never calls cyecca).

Conventions match the repository's documented ones, re-derived here from first
principles: unit quaternion q = (w, x, y, z) (Hamilton, scalar first) represents the
rotation R(q) taking body-frame vectors to the world frame; MRP r = q_v / (1 + q_w).
"""
import math

import numpy as np


def quat_to_R(q):
    w, x, y, z = [float(v) for v in q]
    n = w * w + x * x + y * y + z * z
    s = 2.0 / n
    return np.array([
        [1 - s * (y * y + z * z), s * (x * y - z * w), s * (x * z + y * w)],
        [s * (x * y + z * w), 1 - s * (x * x + z * z), s * (y * z - x * w)],
        [s * (x * z - y * w), s * (y * z + x * w), 1 - s * (x * x + y * y)],
    ])


def quat_mul(a, b):
    aw, ax, ay, az = a
    bw, bx, by, bz = b
    return np.array([
        aw * bw - ax * bx - ay * by - az * bz,
        aw * bx + ax * bw + ay * bz - az * by,
        aw * by - ax * bz + ay * bw + az * bx,
        aw * bz + ax * by - ay * bx + az * bw,
    ])


def quat_conj(q):
    return np.array([q[0], -q[1], -q[2], -q[3]])


def quat_exp(v):
    """Unit quaternion of the rotation vector v."""
    v = np.asarray(v, dtype=float)
    th = float(np.linalg.norm(v))
    if th < 1e-12:
        return np.array([1.0, 0.5 * v[0], 0.5 * v[1], 0.5 * v[2]]) / math.sqrt(1 + 0.25 * th * th)
    s = math.sin(th / 2) / th
    return np.array([math.cos(th / 2), s * v[0], s * v[1], s * v[2]])


def mrp_to_quat(r):
    r = np.asarray(r, dtype=float)
    n = float(r @ r)
    return np.array([(1 - n) / (1 + n), 2 * r[0] / (1 + n), 2 * r[1] / (1 + n), 2 * r[2] / (1 + n)])


def quat_to_mrp(q):
    q = np.asarray(q, dtype=float)
    q = q / np.linalg.norm(q)
    if q[0] < 0:
        q = -q
    return q[1:] / (1 + q[0])


def hat(v):
    return np.array([[0, -v[2], v[1]], [v[2], 0, -v[0]], [-v[1], v[0], 0]], dtype=float)


def rot_exp(v):
    v = np.asarray(v, dtype=float)
    th = float(np.linalg.norm(v))
    K = hat(v)
    if th < 1e-8:
        return np.eye(3) + K + 0.5 * K @ K
    return np.eye(3) + math.sin(th) / th * K + (1 - math.cos(th)) / (th * th) * K @ K


def rot_angle(R):
    """Principal angle of a rotation matrix in [0, pi], accurate near 0 and pi."""
    R = np.asarray(R, dtype=float)
    s = 0.5 * math.sqrt((R[2, 1] - R[1, 2]) ** 2 + (R[0, 2] - R[2, 0]) ** 2 + (R[1, 0] - R[0, 1]) ** 2)
    c = 0.5 * (np.trace(R) - 1.0)
    return math.atan2(s, c)


def rot_log(R):
    """Rotation vector of R with angle in [0, pi)."""
    th = rot_angle(R)
    w = np.array([R[2, 1] - R[1, 2], R[0, 2] - R[2, 0], R[1, 0] - R[0, 1]])
    if th < 1e-9:
        return 0.5 * w
    if math.pi - th < 1e-6:
        # near pi: axis from the symmetric part
        A = (R + np.eye(3)) / 2.0
        i = int(np.argmax(np.diag(A)))
        ax = A[:, i] / math.sqrt(max(A[i, i], 1e-300))
        if ax @ w < 0:
            ax = -ax
        return th * ax
    return th / (2 * math.sin(th)) * w


def angle_between_quats(q1, q2):
    """Principal angle of the rotation taking R(q1) to R(q2) (sign-insensitive)."""
    return rot_angle(quat_to_R(q1).T @ quat_to_R(q2))


def left_jacobian_so3(v):
    v = np.asarray(v, dtype=float)
    th = float(np.linalg.norm(v))
    K = hat(v)
    if th < 1e-6:
        return np.eye(3) + 0.5 * K + K @ K / 6.0
    return np.eye(3) + (1 - math.cos(th)) / th ** 2 * K + (th - math.sin(th)) / th ** 3 * K @ K


def Rz(a):
    c, s = math.cos(a), math.sin(a)
    return np.array([[c, -s, 0], [s, c, 0], [0, 0, 1.0]])


def Ry(a):
    c, s = math.cos(a), math.sin(a)
    return np.array([[c, 0, s], [0, 1.0, 0], [-s, 0, c]])


def Rx(a):
    c, s = math.cos(a), math.sin(a)
    return np.array([[1.0, 0, 0], [0, c, -s], [0, s, c]])


def is_rotation(R, tol=1e-9):
    R = np.asarray(R, dtype=float)
    return bool(np.all(np.isfinite(R)) and np.max(np.abs(R.T @ R - np.eye(3))) < tol and abs(np.linalg.det(R) - 1) < tol)
