"""Deterministic simulation with fault injection for CogniPilot/cyecca."""
import os
import sys

VERIF_DIR = os.path.dirname(os.path.dirname(os.path.abspath(__file__)))
REPO = os.path.abspath(os.environ.get("VERIF_REPO", "/repo"))


def bootstrap():
    """Make `import cyecca` resolve to REPO's current working tree."""
    import warnings

    warnings.filterwarnings("ignore", category=FutureWarning)
    warnings.filterwarnings("ignore", category=DeprecationWarning)
    if sys.path[0] != REPO:
        sys.path.insert(0, REPO)
    if "cyecca" in sys.modules:
        f = os.path.abspath(sys.modules["cyecca"].__file__)
        if not f.startswith(REPO + os.sep):
            raise RuntimeError("cyecca imported from %s, expected under %s" % (f, REPO))
