"""Batch runner: seeded fan-out over processes, outcome classes, minimisation,
replay files, known findings, evidence.  The only wall-clock reads in the harness are
here and in shrink.py; they decide how many runs happen / how far a failing scenario is
minimised, never what a run does."""
import copy
import faulthandler
import importlib
import json
import multiprocessing
import os
import subprocess
import sys
import time
import traceback
from concurrent.futures import ProcessPoolExecutor, as_completed

from dsim import VERIF_DIR, REPO, bootstrap

FAMILIES = {
    "bus_model": "busim.bus_model",
    "driven_estimator": "busim.driven_estimator",
    "packaged_loop": "busim.packaged_loop",
    "hover_convergence": "flightsim.hover_convergence",
    "controller_recursion": "flightsim.controller_recursion",
    "ins_flight": "flightsim.ins_flight",
    "ins_bench": "flightsim.ins_bench",
}

EXIT_HELD, EXIT_VIOLATION, EXIT_HARNESS = 0, 1, 2


def family(name):
    return importlib.import_module(FAMILIES[name])


def seed_for(base, i):
    return int(base) * 1000000 + int(i)


# ---------------------------------------------------------------------------
# worker
# ---------------------------------------------------------------------------
def _work(job):
    fam, seed, tier, timeout_s = job
    faulthandler.dump_traceback_later(timeout_s, exit=True)
    try:
        mod = family(fam)
        scn = mod.gen(seed, tier)
        t0 = time.perf_counter()
        res = mod.run(scn)
        res["wall"] = time.perf_counter() - t0
        res["family"] = fam
        res["seed"] = seed
        res["sample"] = mod.sample(scn) if hasattr(mod, "sample") else {"seed": seed}
        return res
    except Exception as e:
        return {"family": fam, "seed": seed, "violations": [], "harness_error": "worker exception: %s\n%s" % (e, traceback.format_exc()[-3000:]),
                "counters": {}, "faults": {}, "probes": {}, "sig": "", "digest": "", "sim_s": 0.0, "events": 0, "nontrivial": False, "wall": 0.0,
                "sample": {"seed": seed}}
    finally:
        faulthandler.cancel_dump_traceback_later()


def run_one(fam, seed, tier):
    mod = family(fam)
    if hasattr(mod, "setup"):
        mod.setup()
    scn = mod.gen(seed, tier)
    return scn, mod.run(scn)


# ---------------------------------------------------------------------------
# known findings
# ---------------------------------------------------------------------------
def load_known():
    p = os.path.join(VERIF_DIR, "known_findings.json")
    if not os.path.exists(p):
        return {"known": [], "fixed": []}
    with open(p) as f:
        return json.load(f)


def match_known(known, v):
    """A finding is identified by property + violation class + site + the specific
    'key' fields of the violation's `at` record (input signature / call site)."""
    for k in known.get("known", []):
        if k["property"] != v["prop"] or k["cls"] != v["cls"] or k["site"] != v["site"]:
            continue
        at = v.get("at", {})
        if all(at.get(kk) == vv for kk, vv in k.get("at", {}).items()):
            return k
    return None


# ---------------------------------------------------------------------------
# the check
# ---------------------------------------------------------------------------
def _merge(dst, src):
    for k, v in src.items():
        if isinstance(v, bool):
            v = int(v)
        if isinstance(v, (int, float)):
            dst[k] = dst.get(k, 0) + v


def run_check(spec, tier, base_seed, budget_s=None, workers=None, out=sys.stdout):
    """spec: dict(prop, level, families=[(name, quick_n, thorough_weight)], rule, real, stub,
    assumptions, faults_na, run_timeout)"""
    t_start = time.time()
    prop = spec["prop"]
    workers = workers or int(os.environ.get("VERIF_WORKERS", "16"))
    print("VERIF_SEED=%d property=%s tier=%s repo=%s" % (base_seed, prop, tier, REPO), file=out, flush=True)
    bootstrap()
    mods = {}
    for fam, _, _ in spec["families"]:
        mods[fam] = family(fam)
        if hasattr(mods[fam], "setup"):
            mods[fam].setup()
    ctx = multiprocessing.get_context("fork")
    timeout_s = spec.get("run_timeout", 600)

    results = []
    harness_errors = []
    first_violation = None
    stop = False

    def jobs_quick():
        for fam, nq, _ in spec["families"]:
            for i in range(nq):
                yield (fam, seed_for(base_seed, i), tier, timeout_s)

    def handle(res):
        nonlocal first_violation, stop
        if res.get("harness_error"):
            harness_errors.append((res["family"], res["seed"], res["harness_error"]))
        mine = [v for v in res["violations"] if v["prop"] == prop]
        res["violations_mine"] = mine
        results.append(res)

    with ProcessPoolExecutor(max_workers=workers, mp_context=ctx) as pool:
        try:
            if tier == "quick":
                futs = [pool.submit(_work, j) for j in jobs_quick()]
                for f in as_completed(futs):
                    handle(f.result())
            else:
                budget_s = budget_s or float(os.environ.get("VERIF_BUDGET_S", "900"))
                deadline = time.time() + budget_s
                idx = {fam: 0 for fam, _, _ in spec["families"]}
                wsum = sum(w for _, _, w in spec["families"])
                pending = set()
                # keep the pool full until the deadline; interleave families by weight
                order = []
                for fam, _, w in spec["families"]:
                    order += [fam] * max(1, int(round(10.0 * w / wsum)))
                oi = 0
                n_viol_runs = 0
                while True:
                    while len(pending) < workers * 2 and time.time() < deadline and n_viol_runs == 0:
                        fam = order[oi % len(order)]
                        oi += 1
                        pending.add(pool.submit(_work, (fam, seed_for(base_seed, idx[fam]), tier, timeout_s)))
                        idx[fam] += 1
                    if not pending:
                        break
                    done = [f for f in pending if f.done()]
                    if not done:
                        time.sleep(0.02)
                        continue
                    for f in done:
                        pending.discard(f)
                        r = f.result()
                        handle(r)
                        if r["violations_mine"]:
                            n_viol_runs += 1
        except Exception as e:  # BrokenProcessPool etc.
            harness_errors.append(("pool", -1, "pool failure: %s" % e))

    # ---- classify ----------------------------------------------------------
    known = load_known()
    results.sort(key=lambda r: (r["family"], r["seed"]))
    new_violations = []
    known_hits = {}
    for r in results:
        for v in r["violations_mine"]:
            k = match_known(known, v)
            if k is not None:
                known_hits.setdefault(k["what"], 0)
                known_hits[k["what"]] += 1
            else:
                new_violations.append((r, v))

    exit_code = EXIT_HELD
    replay_paths = []
    if new_violations:
        by = {}
        for r, v in new_violations:
            by[(v["cls"], v["site"])] = by.get((v["cls"], v["site"]), 0) + 1
        for (c, st), n in sorted(by.items()):
            print("  violation class=%s site=%s: %d runs" % (c, st, n), file=out)
    if new_violations:
        exit_code = EXIT_VIOLATION
        # one replay file per distinct (class, site); minimise the lowest-seed instance
        seen = set()
        for r, v in new_violations:
            key = (v["cls"], v["site"])
            if key in seen or len(seen) >= 3:
                continue
            seen.add(key)
            path = minimise_and_write(prop, r["family"], r["seed"], tier, v, out)
            replay_paths.append(path)
            print("VIOLATION property=%s replay=%s" % (prop, path), file=out, flush=True)
            print("  class=%s site=%s: %s" % (v["cls"], v["site"], v["msg"][:400]), file=out, flush=True)
    for what, n in sorted(known_hits.items()):
        print("KNOWN-FINDING: property=%s %s (seen in %d runs)" % (prop, what, n), file=out, flush=True)

    # ---- determinism spot check (fresh interpreter, other hash seed) ---------
    det_pairs = 0
    if not harness_errors and os.environ.get("VERIF_NO_DETCHECK") != "1":
        picks = []
        for fam, _, _ in spec["families"]:
            rs = [r for r in results if r["family"] == fam]
            picks += rs[:1] if tier == "quick" else rs[:2]
        for r in picks:
            d = digest_in_fresh_interpreter(r["family"], r["seed"], tier)
            det_pairs += 1
            if d != r["digest"]:
                harness_errors.append((r["family"], r["seed"], "NONDETERMINISM: digest %s in pool, %s in a fresh interpreter with another PYTHONHASHSEED" % (r["digest"][:16], str(d)[:16])))

    # vacuity guard: a batch in which the code under test mostly did not run decides nothing
    prog = [min(1.0, r["progress"]) for r in results if "progress" in r and not r["violations_mine"]]
    if prog and not new_violations and sum(prog) / len(prog) < 0.5:
        harness_errors.append(("batch", -1, "VACUOUS: on average only %.0f %% of the planned steps ran (the code under test raises or stops early); nothing is decided" % (100 * sum(prog) / len(prog))))
    if harness_errors:
        for fam, seed, msg in harness_errors[:5]:
            print("HARNESS-ERROR family=%s seed=%s: %s" % (fam, seed, msg), file=out, flush=True)
        if exit_code == EXIT_HELD:
            exit_code = EXIT_HARNESS

    wall = time.time() - t_start
    write_evidence(spec, tier, base_seed, results, wall, len(new_violations), det_pairs, known_hits, harness_errors)
    n = len(results)
    print("%s property=%s runs=%d violations=%d known=%d harness_errors=%d wall=%.1fs" % (
        {0: "HELD", 1: "VIOLATED", 2: "HARNESS-ERROR"}[exit_code], prop, n, len(new_violations), sum(known_hits.values()), len(harness_errors), wall), file=out, flush=True)
    return exit_code


def digest_in_fresh_interpreter(fam, seed, tier):
    env = dict(os.environ)
    env["PYTHONHASHSEED"] = "12345"
    env["VERIF_REPO"] = REPO
    try:
        p = subprocess.run([sys.executable, os.path.join(VERIF_DIR, "verif"), "digest", fam, str(seed), tier],
                           env=env, capture_output=True, text=True, timeout=900)
    except subprocess.TimeoutExpired:
        return "timeout"
    for line in p.stdout.splitlines():
        if line.startswith("DIGEST "):
            return line.split()[1]
    return "no-digest: " + (p.stderr or p.stdout)[-300:]


# ---------------------------------------------------------------------------
# minimise + replay file
# ---------------------------------------------------------------------------
def minimise_and_write(prop, fam, seed, tier, v, out):
    from dsim.shrink import shrink

    mod = family(fam)
    scn = mod.gen(seed, tier)
    budget = float(os.environ.get("VERIF_SHRINK_S", "150" if tier == "quick" else "400"))
    try:
        small, v2, stats = shrink(mod, scn, v, budget)
    except Exception as e:
        print("  (minimisation failed: %s; writing the unminimised scenario)" % e, file=out)
        small, v2, stats = scn, v, {"tried": 0, "accepted": 0}
    rdir = os.environ.get("VERIF_REPLAY_DIR", os.path.join(VERIF_DIR, "replays"))
    os.makedirs(rdir, exist_ok=True)
    path = os.path.join(rdir, "%s-%s-%d-%s.json" % (prop, fam, seed, v["cls"]))
    doc = {"property": prop, "family": fam, "seed": seed, "tier": tier, "violation": v2, "original_violation": v,
           "shrink": stats, "scenario": small,
           "replay": "cd /verif && ./verif replay %s" % path}
    with open(path, "w") as f:
        json.dump(doc, f, indent=1, default=_jsonable)
    # replay in a fresh process must reproduce the same record
    try:
        p = subprocess.run([sys.executable, os.path.join(VERIF_DIR, "verif"), "replay", path], capture_output=True, text=True, timeout=900,
                           env=dict(os.environ, VERIF_REPO=REPO))
        ok = p.returncode == 1 and "REPRODUCED" in p.stdout
        print("  minimised: %s tried, %s accepted; replay in fresh process %s" % (stats["tried"], stats["accepted"], "reproduces" if ok else "DOES NOT reproduce"), file=out)
    except Exception as e:
        print("  replay check failed to run: %s" % e, file=out)
    return path


def _jsonable(o):
    import numpy as np

    if isinstance(o, (np.floating, np.integer, np.bool_)):
        return o.item()
    if isinstance(o, np.ndarray):
        return o.tolist()
    return repr(o)


def replay(path, out=sys.stdout):
    with open(path) as f:
        doc = json.load(f)
    bootstrap()
    mod = family(doc["family"])
    if hasattr(mod, "setup"):
        mod.setup()
    res = mod.run(copy.deepcopy(doc["scenario"]))
    want = doc["violation"]
    print("replay of %s (property %s, family %s, seed %s)" % (path, doc["property"], doc["family"], doc["seed"]), file=out)
    if res.get("harness_error"):
        print("HARNESS-ERROR %s" % res["harness_error"], file=out)
        return EXIT_HARNESS
    for v in res["violations"]:
        print("  violation: prop=%s class=%s site=%s t=%r: %s" % (v["prop"], v["cls"], v["site"], v.get("t"), v["msg"][:500]), file=out)
    for v in res["violations"]:
        if (v["prop"], v["cls"], v["site"]) == (want["prop"], want["cls"], want["site"]):
            exact = json.dumps(v, sort_keys=True, default=_jsonable) == json.dumps(want, sort_keys=True, default=_jsonable)
            print("REPRODUCED property=%s class=%s site=%s (%s)" % (v["prop"], v["cls"], v["site"], "record identical" if exact else "same class and site, record differs"), file=out)
            print("VIOLATION property=%s replay=%s" % (doc["property"], path), file=out)
            return EXIT_VIOLATION
    print("NOT-REPRODUCED (the recorded violation does not occur on this tree)", file=out)
    return EXIT_HELD


# ---------------------------------------------------------------------------
# evidence
# ---------------------------------------------------------------------------
def write_evidence(spec, tier, base_seed, results, wall, n_viol, det_pairs, known_hits, harness_errors):
    import jsonschema

    fam_stats = {}
    faults, probes, counters = {}, {}, {}
    sigs = set()
    metrics_max = {}
    metrics_at = {}
    sim_s = 0.0
    events = 0
    for r in results:
        fs = fam_stats.setdefault(r["family"], {"runs": 0, "sim_s": 0.0, "wall_cpu_s": 0.0, "first_seed": r["seed"], "last_seed": r["seed"]})
        fs["runs"] += 1
        fs["sim_s"] += r.get("sim_s", 0.0)
        fs["wall_cpu_s"] += r.get("wall", 0.0)
        fs["first_seed"] = min(fs["first_seed"], r["seed"])
        fs["last_seed"] = max(fs["last_seed"], r["seed"])
        _merge(faults, r.get("faults", {}))
        _merge(probes, r.get("probes", {}))
        _merge(counters, r.get("counters", {}))
        for mk, mv in (r.get("metrics") or {}).items():
            if isinstance(mv, list) and mv and all(isinstance(z, (int, float)) for z in mv):
                mv = max(mv)
            if isinstance(mv, (int, float)) and mv == mv:
                if mk not in metrics_max or mv > metrics_max[mk]:
                    metrics_max[mk] = mv
                    metrics_at[mk] = "%s seed %d" % (r["family"], r["seed"])
        sim_s += r.get("sim_s", 0.0)
        events += r.get("events", 0)
        if r.get("nontrivial") and r.get("sig"):
            sigs.add((r["family"], r["sig"]))
    samples = []
    for fam in fam_stats:
        rs = [r for r in results if r["family"] == fam]
        for r in rs[:2]:
            samples.append(r.get("sample"))
    n = len(results)
    ev = {
        "property_id": spec["prop"],
        "tier": tier,
        "seed": int(base_seed),
        "level": spec["level"],
        "coverage": {
            "evaluations": n,
            "distinct_nontrivial": len(sigs),
            "rule": spec["rule"],
            "samples": samples or [{}],
            "runs_per_hour": round(n / wall * 3600.0, 1) if wall > 0 else 0,
            "simulated_seconds": round(sim_s, 3),
            "events_processed": int(events),
            "families": fam_stats,
            "faults_fired": faults,
            "faults_not_applicable": spec.get("faults_na", []),
            "probes": probes,
            "counters": counters,
            "worst_observed_metrics": metrics_max,
            "worst_observed_at": metrics_at,
            "real_components": spec.get("real", []),
            "stub_components": spec.get("stub", []),
            "determinism_pairs_checked": det_pairs,
            "known_findings_seen": known_hits,
            "harness_errors": len(harness_errors),
            "workers": int(os.environ.get("VERIF_WORKERS", "16")),
        },
        "assumptions": spec.get("assumptions", []),
        "wall_s": round(wall, 2),
        "violations": int(n_viol),
    }
    # probes that count *bad or undecidable* events are expected to stay at zero
    expect_zero = {"dt_nonpositive_seen", "long_way_round_commanded", "check_nan_raised", "state_poisoned_out_of_domain", "plant_failed",
                   "not_judged_nonfinite", "setpoint_quat_not_unit", "near_pi_not_judged", "ground_contact", "predict_changed_bias",
                   "corrected_factor_not_lower_triangular", "exception_in_node", "integrator_memory_changed_by_caller", "setpoint_memory_changed_by_caller"}
    zero = sorted(k for k, v in probes.items() if v == 0 and k not in expect_zero)
    if zero:
        ev["coverage"]["probes_stuck_at_zero"] = zero
    with open("/root/.vp/EVIDENCE.schema.json") as f:
        schema = json.load(f)
    ev = json.loads(json.dumps(ev, default=_jsonable))
    try:
        jsonschema.validate(ev, schema)
    except jsonschema.ValidationError as e:
        # a run too small to have two distinct non-trivial cases is not valid evidence; say so
        print("EVIDENCE-INVALID: %s" % e.message, flush=True)
    edir = os.environ.get("VERIF_EVIDENCE_DIR", os.path.join(VERIF_DIR, "evidence"))
    os.makedirs(edir, exist_ok=True)
    p = os.path.join(edir, "%s.json" % spec["prop"])
    with open(p + ".tmp", "w") as f:
        json.dump(ev, f, indent=1)
    os.replace(p + ".tmp", p)
