"""Determinism proof: every scenario family, many seeds, each executed in separate fresh
interpreters under different PYTHONHASHSEED values and different worker counts; the
SHA-256 of the full event log must be identical."""
import multiprocessing
import os
import subprocess
import sys
from concurrent.futures import ProcessPoolExecutor

from dsim import VERIF_DIR, REPO
from dsim.runner import FAMILIES, family, seed_for

HEAVY = {"packaged_loop": 8, "hover_convergence": 8, "controller_recursion": 16, "ins_flight": 8, "driven_estimator": 32}


def _digest(job):
    fam, seed, tier = job
    mod = family(fam)
    res = mod.run(mod.gen(seed, tier))
    return fam, seed, res["digest"] if not res.get("harness_error") else "HARNESS:" + res["harness_error"][:80]


def digests_main(fam, lo, hi, workers, tier="quick"):
    from dsim import bootstrap

    bootstrap()
    mod = family(fam)
    if hasattr(mod, "setup"):
        mod.setup()
    jobs = [(fam, seed_for(7, i), tier) for i in range(lo, hi)]
    if workers <= 1:
        out = [_digest(j) for j in jobs]
    else:
        with ProcessPoolExecutor(workers, mp_context=multiprocessing.get_context("fork")) as ex:
            out = list(ex.map(_digest, jobs))
    for f, s, d in out:
        print("D %s %d %s" % (f, s, d))
    return 0


def _spawn(fam, lo, hi, workers, hashseed):
    env = dict(os.environ, PYTHONHASHSEED=str(hashseed), VERIF_REPO=REPO)
    return subprocess.Popen([sys.executable, os.path.join(VERIF_DIR, "verif"), "digests", fam, str(lo), str(hi), str(workers)],
                            env=env, stdout=subprocess.PIPE, stderr=subprocess.PIPE, text=True)


def selftest(n_seeds=64, families=None):
    fams = families or list(FAMILIES)
    bad = 0
    total = 0
    for fam in fams:
        n = min(n_seeds, HEAVY.get(fam, n_seeds))
        # run A: 16 workers, hash seed 0; run B: 1 worker for the first few + 16 workers, hash seed 12345
        n1 = max(1, min(4, n // 4))
        pa = _spawn(fam, 0, n, 16, 0)
        pb = _spawn(fam, 0, n, 15, 12345)
        pc = _spawn(fam, 0, n1, 1, 999)
        outs = []
        for p in (pa, pb, pc):
            o, e = p.communicate(timeout=7200)
            d = {}
            for line in o.splitlines():
                if line.startswith("D "):
                    _, f, s, dg = line.split(None, 3)
                    d[int(s)] = dg
            if p.returncode != 0:
                print("SELFTEST %s: subprocess failed: %s" % (fam, e[-500:]))
                bad += 1
            outs.append(d)
        a, b, c = outs
        mism = [s for s in a if b.get(s) != a[s]] + [s for s in c if a.get(s) != c[s]]
        harness = [s for s in a if str(a[s]).startswith("HARNESS")]
        total += len(a) + len(c)
        print("SELFTEST %-22s seeds=%d (x2 interpreters, hash seeds 0/12345, workers 16/15) + %d at 1 worker: %s" % (
            fam, len(a), len(c), "identical" if not mism and not harness else "MISMATCH at %s harness=%s" % (mism[:5], harness[:3])), flush=True)
        if mism or harness:
            bad += 1
    print("SELFTEST %s (%d digest pairs)" % ("OK" if not bad else "FAILED", total))
    return 0 if not bad else 2
